//! C15 — a holder can narrow an existing presentation without the original SD-JWT.
//!
//! For an issued SD-JWT and a chain of selections D1 >= D2 >= ... >= Dk: P1 = present(issued, D1);
//! P(i+1)' = present(P(i)', D(i+1)) by a NEW holder that only has the previous presentation;
//! compared with P(i+1) = present(issued, D(i+1)): same issuer-signed JWT, same disclosure
//! multiset, same verified claims.

use crate::ctx::*;
use crate::flow::*;
use crate::gen::*;
use crate::imp::*;
use crate::model::run_model;
use crate::props::c11::present_args_of_json;
use crate::rng::Rng;
use crate::tok::*;
use serde_json::{json, Map, Value};

#[derive(Clone, Debug)]
pub struct Chain {
    /// issuance (format included); `flow.sel` = D1, no key binding
    pub flow: Flow,
    /// D1, D2, ..., Dk
    pub sels: Vec<Value>,
    /// the issued SD-JWT, when the case is a stored one
    pub issued: Option<String>,
    /// compare the direct selections D2.. from the issued SD-JWT with the model too (they are
    /// C06's ground; always in the quick tier and in replays, every fourth chain in the thorough tier)
    pub model_direct: bool,
}

impl Chain {
    pub fn json(&self) -> Value {
        json!({"flow": self.flow.json(), "chain": self.sels, "issued": self.issued})
    }
    fn key(&self) -> Value {
        json!({"flow": self.flow.json(), "chain": self.sels})
    }
}

/// a selector for one node made narrower; None = the member is dropped from its object
fn narrow_node(r: &mut Rng, s: &Value) -> Option<Value> {
    match s {
        Value::Bool(false) | Value::Null => {
            if r.chance(1, 4) {
                None
            } else {
                Some(s.clone())
            }
        }
        Value::Object(_) | Value::Array(_) => match r.below(10) {
            0 => None,
            1 => Some(if r.chance(1, 2) { json!(false) } else { Value::Null }),
            // the node itself, nothing beneath it
            2 => Some(json!(true)),
            3 => Some(if s.is_object() { json!({}) } else { json!([]) }),
            4..=6 => Some(narrow(r, s)),
            _ => Some(s.clone()),
        },
        _ => match r.below(10) {
            0 => None,
            1 | 2 => Some(if r.chance(2, 3) { json!(false) } else { Value::Null }),
            _ => Some(s.clone()),
        },
    }
}

/// a selection that deselects arbitrary nodes of `sel` (sel_le (narrow sel) sel).
/// In this crate `true` selects a node without its hidden descendants, an object / array
/// selector selects the node and recurses, `{}` / `[]` select the node only.
pub fn narrow(r: &mut Rng, sel: &Value) -> Value {
    match sel {
        Value::Object(m) => {
            let mut out = Map::new();
            for (k, s) in m {
                if let Some(v) = narrow_node(r, s) {
                    out.insert(k.clone(), v);
                }
            }
            Value::Object(out)
        }
        Value::Array(a) => {
            let mut out: Vec<Value> = a.iter().map(|s| narrow_node(r, s).unwrap_or(json!(false))).collect();
            if r.chance(1, 6) {
                let n = r.below(out.len() + 1);
                out.truncate(n);
            }
            Value::Array(out)
        }
        other => other.clone(),
    }
}

pub fn gen_chain(r: &mut Rng, tier: Tier) -> Chain {
    let cfg = FlowCfg {
        tree: TreeCfg { max_depth: if tier == Tier::Quick { 4 } else { 5 }, max_fanout: 4, path_safe_names: false, plain: false },
        allow_custom: true,
        allow_kb: false,
        sel_density: 5,
    };
    let mut flow = gen_flow(r, &cfg);
    // issuances without any disclosure leave nothing to narrow: keep only a few of them
    for _ in 0..3 {
        if !matches!(flow.issue.strategy, Strategy::None) {
            break;
        }
        flow = gen_flow(r, &cfg);
    }
    // now and then claims nested 17 to 40 levels deep (everything hidden at every level): what is selected deep down must
    // survive every narrowing step
    if r.chance(1, 14) {
        let d = r.range(17, 40);
        flow.issue.claims = gen_deep_claims_with(r, d, now(), 4);
        flow.issue.strategy = Strategy::All;
    }
    let d1 = match r.below(3) {
        0 => select_all(&flow.issue.claims),
        _ => {
            let d = r.range(4, 7);
            gen_selection(r, &flow.issue.claims, d)
        }
    };
    flow.sel = d1.as_object().cloned().unwrap_or_default();
    flow.kb = None;
    let k = r.range(2, 4);
    let mut sels = vec![d1];
    for _ in 1..k {
        let next = narrow(r, sels.last().unwrap());
        sels.push(next);
    }
    Chain { flow, sels, issued: None, model_direct: true }
}

enum Replayed {
    Chain(Chain),
    /// the case of a model disagreement reported by flow.rs: one holder session
    Session { input: String, fmt: Fmt, calls: Vec<PresentArgs> },
}

fn from_replay(path: &str) -> Option<Replayed> {
    let v: Value = serde_json::from_str(&std::fs::read_to_string(path).ok()?).ok()?;
    let case = v.get("case")?;
    let case = case.get("case").unwrap_or(case);
    if case.get("stage").and_then(Value::as_str) == Some("present") {
        return Some(Replayed::Session {
            input: case.get("input")?.as_str()?.to_string(),
            fmt: Fmt::from_name(case.get("fmt").and_then(Value::as_str).unwrap_or("compact")),
            calls: case.get("calls")?.as_array()?.iter().map(present_args_of_json).collect(),
        });
    }
    let mut flow = crate::props::flow_of_json(case.get("flow")?)?;
    flow.kb = None;
    let sels: Vec<Value> = case.get("chain")?.as_array()?.clone();
    if let Some(d1) = sels.first().and_then(Value::as_object) {
        flow.sel = d1.clone();
    }
    Some(Replayed::Chain(Chain { flow, sels, issued: case.get("issued").and_then(Value::as_str).map(String::from), model_direct: true }))
}

fn one(input: &str, fmt: Fmt, sel: &Value) -> (PresentArgs, HolderRes) {
    let a = PresentArgs::plain(sel.as_object().cloned().unwrap_or_default());
    let h = holder_session(input, fmt, std::slice::from_ref(&a));
    (a, h)
}

fn out_of(h: &HolderRes) -> Outcome<String> {
    match &h.new {
        Outcome::Ok(()) => h.calls.first().map(|c| c.out.clone()).unwrap_or(Outcome::Timeout),
        Outcome::Err(e) => Outcome::Err(format!("holder new: {}", e)),
        Outcome::Panic(e) => Outcome::Panic(format!("holder new: {}", e)),
        Outcome::Timeout => Outcome::Timeout,
    }
}

/// one executed holder call, kept for the comparison with the model
struct Call {
    input: String,
    args: PresentArgs,
    res: HolderRes,
    /// index of the model request, when the call is compared with the model
    req: Option<usize>,
}

struct Step {
    direct: usize,   // index into calls
    narrowed: usize, // index into calls
    ver_direct: Option<VerifyRes>,
    ver_narrowed: Option<VerifyRes>,
}

struct ChainRun {
    issued: String,
    calls: Vec<Call>,
    first: usize,
    steps: Vec<Step>,
}

fn run_chain(ctx: &mut Ctx, c: &Chain, reqs: &mut Vec<Value>) -> Option<ChainRun> {
    let fmt = c.flow.issue.fmt;
    let issued = match &c.issued {
        Some(s) => s.clone(),
        None => {
            ctx.impl_calls += 1;
            match issue(&c.flow.issue).out {
                Outcome::Ok(s) => s,
                _ => {
                    ctx.count("issuance_failed(skipped; C01 judges)");
                    return None;
                }
            }
        }
    };
    let mut calls: Vec<Call> = vec![];
    let mut push = |ctx: &mut Ctx, reqs: &mut Vec<Value>, input: &str, sel: &Value, model: bool| -> (usize, Outcome<String>) {
        let (args, res) = one(input, fmt, sel);
        ctx.impl_calls += 2;
        let req = if model {
            reqs.push(holder_request(reqs.len(), input, fmt, std::slice::from_ref(&args), &res));
            Some(reqs.len() - 1)
        } else {
            None
        };
        let out = out_of(&res);
        calls.push(Call { input: input.to_string(), args, res, req });
        (calls.len() - 1, out)
    };
    let (first, p1) = push(ctx, reqs, &issued, &c.sels[0], true);
    let mut steps = vec![];
    let mut cur = p1.ok().cloned();
    for d in c.sels.iter().skip(1) {
        let prev = match &cur {
            Some(p) => p.clone(),
            None => break,
        };
        let (di, dout) = push(ctx, reqs, &issued, d, c.model_direct);
        let (ni, nout) = push(ctx, reqs, &prev, d, true);
        let ver = |ctx: &mut Ctx, o: &Outcome<String>| {
            o.ok().map(|p| {
                ctx.impl_calls += 1;
                verify(&VerifyArgs { input: p.clone(), fmt, resolver: Resolver::always(c.flow.issue.key), aud: None, nonce: None })
            })
        };
        let ver_direct = ver(ctx, &dout);
        let ver_narrowed = ver(ctx, &nout);
        steps.push(Step { direct: di, narrowed: ni, ver_direct, ver_narrowed });
        // down the chain from the narrowed presentation, never from the direct one
        cur = if dout.is_ok() { nout.ok().cloned() } else { None };
    }
    drop(push);
    Some(ChainRun { issued, calls, first, steps })
}

fn compare_chain(ctx: &mut Ctx, c: &Chain, run: &ChainRun, resp: &[Value]) {
    for call in &run.calls {
        match call.req {
            Some(req) => cmp_holder(ctx, &call.input, c.flow.issue.fmt, std::slice::from_ref(&call.args), &call.res, &resp[req]),
            None => ctx.count("direct_selection_not_compared_with_the_model(thorough tier: 3 chains in 4)"),
        }
    }
}

fn judge_chain(ctx: &mut Ctx, c: &Chain, run: &ChainRun) {
    let fmt = c.flow.issue.fmt;
    ctx.oracle_checks += 1;
    let mut stored = c.clone();
    stored.issued = Some(run.issued.clone());
    let case = stored.json();
    let p1 = out_of(&run.calls[run.first].res);
    let p1 = match &p1 {
        Outcome::Ok(p) => p.clone(),
        _ => {
            ctx.count("D1_not_presentable_from_the_issued_SD-JWT(skipped; C06 judges)");
            return;
        }
    };
    let issued_parts = split(fmt, &run.issued);
    let mut counts: Vec<usize> = vec![split(fmt, &p1).map(|p| p.disclosures.len()).unwrap_or(0)];
    let mut prev_text = p1;
    let mut problems_seen = false;
    for (i, st) in run.steps.iter().enumerate() {
        let step_no = i + 2; // selection D<step_no>
        let direct = out_of(&run.calls[st.direct].res);
        let narrowed = out_of(&run.calls[st.narrowed].res);
        let d = match &direct {
            Outcome::Ok(d) => d,
            _ => {
                ctx.count("Di_not_presentable_from_the_issued_SD-JWT(chain cut; C06 judges)");
                break;
            }
        };
        let step_case = json!({"case": case, "step": step_no, "narrowed_from": prev_text});
        let n = match &narrowed {
            Outcome::Ok(n) => n,
            other => {
                ctx.violation(
                    "oracle",
                    "present",
                    &format!("a new holder given the previous presentation {} on the narrower selection D{}, which the holder of the issued SD-JWT accepts", if other.is_err() { "fails" } else { "panics or hangs" }, step_no),
                    step_case,
                    other.describe(),
                    json!({"direct": d}),
                );
                problems_seen = true;
                break;
            }
        };
        let (dp, np) = match (split(fmt, d), split(fmt, n)) {
            (Some(dp), Some(np)) => (dp, np),
            (Some(_), None) => {
                ctx.violation("oracle", "present", &format!("the narrowed presentation for D{} is not in the holder's serialization format", step_no), step_case, json!(n), json!({"direct": d}));
                problems_seen = true;
                break;
            }
            _ => break,
        };
        let mut problems: Vec<String> = vec![];
        if np.jwt != dp.jwt || issued_parts.as_ref().map(|p| p.jwt != np.jwt).unwrap_or(false) {
            problems.push("the issuer-signed JWT differs".into());
        }
        if sorted(np.disclosures.clone()) != sorted(dp.disclosures.clone()) {
            problems.push("the disclosures differ from selecting directly from the issued SD-JWT".into());
        }
        if np.kb.is_some() {
            problems.push("a key-binding JWT appears although none was requested".into());
        }
        match (&st.ver_direct, &st.ver_narrowed) {
            (Some(vd), Some(vn)) => match (&vd.out, &vn.out) {
                (Outcome::Ok(a), Outcome::Ok(b)) => {
                    if a != b {
                        problems.push("the verified claims differ".into());
                    }
                }
                (Outcome::Ok(_), _) => problems.push("the verifier accepts the direct presentation and rejects the narrowed one".into()),
                _ => ctx.count("direct_presentation_not_verified(C01 judges)"),
            },
            _ => {}
        }
        if !problems.is_empty() {
            problems_seen = true;
            ctx.violation(
                "oracle",
                "present",
                &format!("narrowing to D{} from the previous presentation: {}", step_no, problems[0]),
                step_case,
                json!({"problems": problems, "narrowed": n, "disclosures": np.disclosures.iter().map(|x| decode_disclosure(x)).collect::<Vec<_>>(),
                       "verified": st.ver_narrowed.as_ref().map(|v| v.out.describe())}),
                json!({"direct": d, "disclosures": dp.disclosures.iter().map(|x| decode_disclosure(x)).collect::<Vec<_>>(),
                       "verified": st.ver_direct.as_ref().map(|v| v.out.describe())}),
            );
            break;
        }
        counts.push(np.disclosures.len());
        prev_text = n.clone();
    }
    let removes_and_keeps = counts.windows(2).any(|w| w[1] < w[0] && w[1] > 0);
    ctx.count(&format!("{}.steps_completed.{}", fmt.name(), counts.len() - 1));
    ctx.count(&format!(
        "{}.chain.{}",
        fmt.name(),
        if removes_and_keeps { "removes_some_keeps_some" } else if counts.windows(2).any(|w| w[1] < w[0]) { "removes_down_to_nothing" } else if counts[0] == 0 { "nothing_selected" } else { "no_disclosure_removed" }
    ));
    if !problems_seen && removes_and_keeps && counts.len() >= 2 {
        ctx.nontrivial(&c.key());
    }
}

pub fn run(ctx: &mut Ctx, replay: Option<&str>) {
    ctx.rule = "issued SD-JWTs (claim trees, strategies, decoys, issuer algs as C01; no key binding) x chains D1 >= ... >= Dk (k = 2..4): D1 = select-all (1/3) or a dense type-consistent selection, \
                each next selection deselects arbitrary nodes of the previous one (true -> false/null/absent; object/array selector -> absent, false, true, {} / [], or narrowed recursively; array selectors positionally, sometimes truncated); \
                chains are kept when the specification confirms sel_le D(i+1) D(i) and type-consistency of every Di; every chain run in both serialization formats (own issuance each). \
                P1 = holder(issued).present(D1); P(i+1)' = NEW holder(P(i)').present(D(i+1)) compared with holder(issued).present(D(i+1)): same JWT, same disclosure multiset, same verified claims; the D1 call and every narrowing call also compared with the model (the direct D2.. calls too in the quick tier, for every fourth chain in the thorough tier). \
                non-trivial = some step removes at least one disclosure and keeps at least one; distinct by issuance arguments + chain".into();
    let mut chains: Vec<Chain> = vec![];
    if let Some(path) = replay {
        match from_replay(path) {
            Some(Replayed::Chain(c)) => chains.push(c),
            Some(Replayed::Session { input, fmt, calls }) => {
                // a stored model disagreement: the same holder session against the model again
                ctx.evaluations += 1;
                let res = holder_session(&input, fmt, &calls);
                ctx.impl_calls += 1 + calls.len();
                let resp = run_model(&[holder_request(0, &input, fmt, &calls, &res)]);
                cmp_holder(ctx, &input, fmt, &calls, &res, &resp[0]);
                for c in &res.calls {
                    if matches!(c.out, Outcome::Panic(_) | Outcome::Timeout) {
                        ctx.violation("oracle", "present", "the holder panics or hangs on a presentation without key binding", json!({"case": {"stage": "present", "input": input, "fmt": fmt.name(), "calls": calls.iter().map(|c| c.json()).collect::<Vec<_>>()}}), c.out.describe(), json!("Ok or Err"));
                    }
                }
                return;
            }
            None => ctx.notes.push(format!("replay file {} holds no C15 chain", path)),
        }
    } else {
        direct_streams(ctx);
        set_patience(0);
        let n = ctx.tier.pick(300, 8000);
        for i in 0..n {
            let mut r = ctx.rng.fork(i as u64);
            let mut c = gen_chain(&mut r, ctx.tier);
            c.model_direct = ctx.tier == Tier::Quick || i % 4 == 0;
            for fmt in [Fmt::Compact, Fmt::Json] {
                let mut c = c.clone();
                c.flow.issue.fmt = fmt;
                chains.push(c);
            }
        }
    }
    // phase 1: the specification's view of every chain
    let mut sreqs = vec![];
    let mut sidx = vec![];
    for c in &chains {
        let i0 = sreqs.len();
        for d in &c.sels {
            let i = sreqs.len();
            sreqs.push(spec_select_request(i, &c.flow.issue.claims, &c.flow.issue.strategy, d));
        }
        for w in c.sels.windows(2) {
            let i = sreqs.len();
            sreqs.push(json!({"id": i, "op": "spec_sel_le", "s2": w[1], "s1": w[0]}));
        }
        sidx.push(i0);
    }
    let sresp = run_model(&sreqs);
    let mut confirmed: Vec<&Chain> = vec![];
    for (c, i0) in chains.iter().zip(&sidx) {
        ctx.evaluations += 1;
        let k = c.sels.len();
        let consistent = (0..k).all(|j| sresp[i0 + j].get("consistent").and_then(Value::as_bool) == Some(true));
        let le = (0..k.saturating_sub(1)).all(|j| sresp[i0 + k + j].get("le").and_then(Value::as_bool) == Some(true));
        if k < 2 || !c.sels.iter().all(Value::is_object) {
            ctx.count("chain_malformed(skipped)");
        } else if !consistent {
            ctx.count("chain_not_type_consistent_per_specification(skipped)");
        } else if !le {
            ctx.count("chain_not_descending_per_specification(skipped)");
        } else {
            ctx.count(&format!("chain_length.{}", k));
            // the specification's own sanity: designated sets shrink along the chain
            let des: Vec<usize> = (0..k).map(|j| sresp[i0 + j].get("designated").and_then(Value::as_array).map(|a| a.len()).unwrap_or(0)).collect();
            if des.windows(2).any(|w| w[1] > w[0]) {
                ctx.notes.push("specification: a narrower selection designates more positions (sel_le sanity)".into());
            }
            confirmed.push(c);
        }
    }
    // phase 2: the implementation, then the model on every holder call
    let mut reqs = vec![];
    let mut runs = vec![];
    for c in &confirmed {
        runs.push(run_chain(ctx, c, &mut reqs));
    }
    let resp = run_model(&reqs);
    // the property's own rule first, the comparison with the model afterwards (the record of
    // violations is bounded; a property failure must not be crowded out by model disagreements)
    for (c, run) in confirmed.iter().zip(&runs) {
        if let Some(run) = run {
            judge_chain(ctx, c, run);
        }
    }
    for (c, run) in confirmed.iter().zip(&runs) {
        if let Some(run) = run {
            compare_chain(ctx, c, run, &resp);
        }
    }
    if let Some(c) = confirmed.iter().find(|c| serde_json::to_string(&c.key()).map(|s| s.len() < 1500).unwrap_or(false)) {
        ctx.sample(c.key());
    }
    if let Some(c) = confirmed.last() {
        ctx.sample(c.key());
    }
}

/// narrowing judged on the implementation alone: (a) a credential with hundreds of selectively disclosable members, narrowed
/// to a few, then narrowed again with a selection that spells out EVERY member name (true / false) or only the kept ones;
/// (b) ONE holder built from a presentation serving several narrowing calls in a row (equal numbers of claims, other claims).
/// Each narrowing result must carry the same disclosures as the same selection made directly on the issued SD-JWT.
fn direct_streams(ctx: &mut Ctx) {
    set_patience(240);
    use crate::keys::KeyId;
    let now = crate::imp::now();
    let same = |a: &Option<Vec<String>>, b: &Option<Vec<String>>| match (a, b) {
        (Some(x), Some(y)) => sorted(x.clone()) == sorted(y.clone()),
        _ => false,
    };
    let discl = |h: &HolderRes, k: usize, fmt: Fmt| h.calls.get(k).and_then(|c| c.out.ok()).and_then(|p| split(fmt, p)).map(|p| p.disclosures);
    for (wi, n) in (if ctx.tier == Tier::Quick { vec![70usize, 300] } else { vec![33, 64, 65, 70, 300, 1000] }).into_iter().enumerate() {
        for fmt in [Fmt::Compact, Fmt::Json] {
            let mut m: serde_json::Map<String, Value> = (0..n).map(|i| (format!("m{:04}", i), if i % 25 == 3 { json!({"in": i, "x": [i]}) } else { json!(i) })).collect();
            m.insert("iss".into(), json!("https://issuer.example"));
            m.insert("exp".into(), json!(now + 100000));
            let claims = Value::Object(m);
            let a = IssueArgs { claims: claims.clone(), strategy: if wi % 2 == 0 { Strategy::Top } else { Strategy::All }, holder: None, decoy: wi % 2 == 1, fmt, key: KeyId::Hmac1, alg: Some("HS256".into()), queue: None };
            let issued = match issue(&a).out.ok() {
                Some(s) => s.clone(),
                None => continue,
            };
            ctx.impl_calls += 1;
            let keep = [format!("m{:04}", 1), format!("m{:04}", n - 1), format!("m{:04}", 3)];
            let d1: serde_json::Map<String, Value> = keep.iter().map(|k| (k.clone(), json!(true))).collect();
            let p1 = holder_session(&issued, fmt, &[PresentArgs::plain(d1.clone())]);
            let p1_text = match p1.calls.first().and_then(|c| c.out.ok()) {
                Some(p) => p.clone(),
                None => continue,
            };
            let all_named: serde_json::Map<String, Value> = (0..n).map(|i| { let k = format!("m{:04}", i); let v = json!(k == keep[0] || k == keep[2]); (k, v) }).collect();
            let few: serde_json::Map<String, Value> = [(keep[0].clone(), json!(true)), (keep[2].clone(), json!({}))].into_iter().collect();
            for (name, d2) in [("every-member-named(true/false)", all_named), ("only-the-kept-ones-named", few), ("same-selection-again", d1.clone())] {
                let direct = holder_session(&issued, fmt, &[PresentArgs::plain(d2.clone())]);
                let narrowed = holder_session(&p1_text, fmt, &[PresentArgs::plain(d2.clone())]);
                ctx.impl_calls += 4;
                ctx.evaluations += 1;
                ctx.oracle_checks += 1;
                ctx.count("stream.wide_narrowing_direct");
                let case = json!({"wide_narrowing": {"members": n, "fmt": fmt.name(), "strategy": if wi % 2 == 0 { "top" } else { "all" }, "first_selection": d1, "second_selection": name}});
                let (x, y) = (discl(&direct, 0, fmt), discl(&narrowed, 0, fmt));
                if x.is_some() && same(&x, &y) {
                    ctx.nontrivial(&case);
                } else {
                    ctx.violation("oracle", "present", &format!("narrowing a presentation of a {}-member credential ({}) differs from selecting directly", n, name), case,
                                  json!({"narrowed": narrowed.calls.first().map(|c| c.out.class()), "disclosures": y.map(|v| v.len())}), json!({"direct": direct.calls.first().map(|c| c.out.class()), "disclosures": x.map(|v| v.len())}));
                }
            }
        }
    }
    // (c) fixed scenarios: the same member name at two levels (one of the objects wide), list elements that are plain objects
    // with hidden members at several depths; D1 then D2 (D2 below D1), narrowed against direct
    {
        let wide_root = |n: usize| -> Value {
            let mut m: serde_json::Map<String, Value> = (0..n).map(|i| (format!("c{:02}", i), json!(i))).collect();
            m.insert("id".into(), json!("root-id"));
            m.insert("name".into(), json!("root-name"));
            m.insert("c".into(), json!({"id": "child-id", "name": "child-name", "c00": "child-c00", "deep": {"id": "deep-id"}}));
            m.insert("iss".into(), json!("https://issuer.example"));
            m.insert("exp".into(), json!(now + 100000));
            Value::Object(m)
        };
        let orders = json!({"iss": "https://issuer.example", "exp": now + 100000,
                            "orders": [{"ref": "r0", "item": {"sku": "s0", "qty": 1}, "tags": ["a", {"t": "b"}]}, {"ref": "r1", "item": {"sku": "s1", "qty": 2}}, "plain", [{"ref": "r3"}]]});
        let orders_paths: Vec<String> = ["$.orders[0].ref", "$.orders[0].item.sku", "$.orders[1].item.sku", "$.orders[1].ref", "$.orders[0].tags[1].t", "$.orders[3][0].ref"].iter().map(|p| p.to_string()).collect();
        let scenarios: Vec<(&str, Value, Strategy, Vec<Value>)> = vec![
            ("same-name-at-two-levels-10", wide_root(10), Strategy::All, vec![json!({"id": true, "c": {"id": true, "deep": {"id": true}}, "c03": true}), json!({"id": true}), json!({"c": {"id": true}}), json!({"c": {"deep": {"id": true}}})]),
            ("same-name-at-two-levels-40", wide_root(40), Strategy::All, vec![json!({"id": true, "name": true, "c": {"id": true, "c00": true}}), json!({"id": true, "c": {"c00": true}}), json!({"c": {"id": true}}), json!({"name": true})]),
            ("same-name-at-two-levels-top", wide_root(12), Strategy::Top, vec![json!({"id": true, "c": true}), json!({"id": true}), json!({"c": true})]),
            ("plain-list-elements-with-hidden-members", orders.clone(), Strategy::Custom(orders_paths.clone()),
             vec![json!({"orders": [{"item": {"sku": true}, "tags": [false, {"t": true}]}, {"ref": true, "item": {"sku": true}}, false, [{"ref": true}]]}),
                  json!({"orders": [{"item": {"sku": true}}, {"item": {"sku": true}}]}), json!({"orders": [{"item": {"sku": true}}]}), json!({"orders": [{}, {"ref": true}]}), json!({"orders": [{"tags": [false, {"t": true}]}, false, false, [{"ref": true}]]})]),
            ("plain-list-elements-all-levels", orders, Strategy::All,
             vec![json!({"orders": [{"item": {"sku": true}}, {"ref": true, "item": true}, true]}), json!({"orders": [{"item": {"sku": true}}]}), json!({"orders": [false, {"ref": true}]})]),
        ];
        for (name, claims, st, sels) in scenarios {
            for fmt in [Fmt::Compact, Fmt::Json] {
                for decoy in [false, true] {
                    let a = IssueArgs { claims: claims.clone(), strategy: st.clone(), holder: None, decoy, fmt, key: KeyId::IssuerEc, alg: None, queue: None };
                    // several issuances: what a holder does with its maps may depend on the random digests
                    for round in 0..(if ctx.tier == Tier::Quick { 3 } else { 12 }) {
                        let issued = match issue(&a).out.ok() {
                            Some(s) => s.clone(),
                            None => continue,
                        };
                        let p1 = holder_session(&issued, fmt, &[PresentArgs::plain(sels[0].as_object().cloned().unwrap())]);
                        let p1_text = match p1.calls.first().and_then(|c| c.out.ok()) {
                            Some(p) => p.clone(),
                            None => continue,
                        };
                        for d2 in sels.iter() {
                            let pa = PresentArgs::plain(d2.as_object().cloned().unwrap());
                            let direct = holder_session(&issued, fmt, &[pa.clone()]);
                            let narrowed = holder_session(&p1_text, fmt, &[pa]);
                            ctx.impl_calls += 4;
                            ctx.evaluations += 1;
                            ctx.oracle_checks += 1;
                            ctx.count("stream.fixed_scenarios_direct");
                            let case = json!({"scenario": name, "fmt": fmt.name(), "decoy": decoy, "round": round, "first_selection": sels[0], "second_selection": d2, "claims": claims, "strategy": st.json()});
                            let (x, y) = (discl(&direct, 0, fmt), discl(&narrowed, 0, fmt));
                            if x.is_some() && same(&x, &y) {
                                ctx.nontrivial(&case);
                            } else {
                                ctx.violation("oracle", "present", &format!("narrowing ({}) differs from selecting directly", name), case,
                                              json!({"narrowed": narrowed.calls.first().map(|c| c.out.class()), "disclosures": y.map(|v| v.iter().map(|d| decode_disclosure(d)).collect::<Vec<_>>())}),
                                              json!({"direct": direct.calls.first().map(|c| c.out.class()), "disclosures": x.map(|v| v.iter().map(|d| decode_disclosure(d)).collect::<Vec<_>>())}));
                            }
                        }
                    }
                }
            }
        }
    }
    // (b)
    for (k, fmt) in [Fmt::Compact, Fmt::Json, Fmt::Json, Fmt::Compact].into_iter().enumerate() {
        let claims = json!({"iss": "https://issuer.example", "exp": now + 100000, "a": 1, "b": {"x": 1, "y": [1, 2]}, "c": "three", "d": [4, {"e": 5}], "f": null, "g": true});
        let a = IssueArgs { claims: claims.clone(), strategy: if k % 2 == 0 { Strategy::All } else { Strategy::Top }, holder: None, decoy: k >= 2, fmt, key: KeyId::IssuerEc, alg: None, queue: None };
        let issued = match issue(&a).out.ok() {
            Some(s) => s.clone(),
            None => continue,
        };
        let p1 = holder_session(&issued, fmt, &[PresentArgs::plain(select_all(&claims).as_object().cloned().unwrap_or_default())]);
        let p1_text = match p1.calls.first().and_then(|c| c.out.ok()) {
            Some(p) => p.clone(),
            None => continue,
        };
        let sels: Vec<Value> = vec![json!({"a": true, "c": true}), json!({"f": true, "g": true}), json!({"b": true, "d": true}), json!({"a": true, "g": true}), json!({"c": true}), json!({}), json!({"a": true, "c": true})];
        let calls: Vec<PresentArgs> = sels.iter().map(|s| PresentArgs::plain(s.as_object().cloned().unwrap())).collect();
        let shared = holder_session(&p1_text, fmt, &calls);
        ctx.impl_calls += 3 + calls.len();
        for (j, sel) in sels.iter().enumerate() {
            let direct = holder_session(&issued, fmt, &[calls[j].clone()]);
            ctx.impl_calls += 2;
            ctx.evaluations += 1;
            ctx.oracle_checks += 1;
            ctx.count("stream.one_narrowing_holder_many_calls");
            let case = json!({"one_narrowing_holder": {"fmt": fmt.name(), "call": j, "selections": sels, "strategy": if k % 2 == 0 { "all" } else { "top" }, "decoy": a.decoy}});
            let (x, y) = (discl(&direct, 0, fmt), discl(&shared, j, fmt));
            if x.is_some() && same(&x, &y) {
                ctx.nontrivial(&case);
            } else {
                ctx.violation("oracle", "present", &format!("call {} on one holder built from a presentation: the disclosures differ from selecting {} directly", j, sel), case,
                              json!({"disclosures": y.map(|v| v.iter().map(|d| decode_disclosure(d)).collect::<Vec<_>>())}), json!({"disclosures": x.map(|v| v.iter().map(|d| decode_disclosure(d)).collect::<Vec<_>>())}));
            }
        }
    }
}

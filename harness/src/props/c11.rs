//! C11 — issuer and holder instances are reusable; results do not depend on history.
//!
//! Issuer histories: 1..8 `issue_sd_jwt` calls on ONE `SDJWTIssuer`; holder histories: 1..8
//! `create_presentation` calls on ONE `SDJWTHolder`.  Every call of a history is compared with
//! (i) the model (which has no issuer state, and threads the holder state explicitly) and
//! (ii) a FRESH instance given only that call's arguments.

use crate::ctx::*;
use crate::flow::*;
use crate::gen::*;
use crate::imp::*;
use crate::keys::*;
use crate::model::run_model;
use crate::props::c05::{hidden_set, spec_annotate_request};
use crate::rng::Rng;
use crate::tok::*;
use std::collections::HashMap;
use serde_json::{json, Map, Value};
use std::collections::HashSet;

// ---------------------------------------------------------------------------
// histories

#[derive(Clone, Debug)]
pub struct ICall {
    pub args: IssueArgs,
    /// how the call was built: ok | non_object_claims | bad_path | reserved_name
    pub class: String,
}

#[derive(Clone, Debug)]
pub struct IssuerHistory {
    pub key: KeyId,
    pub alg: Option<String>,
    pub calls: Vec<ICall>,
}

impl IssuerHistory {
    pub fn json(&self) -> Value {
        json!({"kind": "issuer", "key": self.key.id(), "alg": self.alg,
               "calls": self.calls.iter().map(|c| { let mut v = c.args.json(); v["class"] = json!(c.class); v }).collect::<Vec<_>>()})
    }
}

#[derive(Clone, Debug)]
pub struct HCall {
    pub args: PresentArgs,
    /// plain | kb | inconsistent_kb | unknown_claim | kb_bad_alg
    pub class: String,
}

#[derive(Clone, Debug)]
pub struct HolderHistory {
    /// how the SD-JWT the holder works on is issued (None when `input` is given, replay only)
    pub issue: Option<IssueArgs>,
    /// the issued SD-JWT itself (stored in violation cases so that a replay uses the same text)
    pub input: Option<String>,
    pub fmt: Fmt,
    pub calls: Vec<HCall>,
}

impl HolderHistory {
    pub fn json(&self) -> Value {
        json!({"kind": "holder", "issue": self.issue.as_ref().map(|a| a.json()), "input": self.input, "fmt": self.fmt.name(),
               "calls": self.calls.iter().map(|c| { let mut v = c.args.json(); v["class"] = json!(c.class); v }).collect::<Vec<_>>()})
    }
}

pub fn issue_args_of_json(v: &Value) -> Option<IssueArgs> {
    crate::props::flow_of_json(&json!({ "issue": v })).map(|f| f.issue)
}

pub fn present_args_of_json(v: &Value) -> PresentArgs {
    let s = |k: &str| v.get(k).and_then(Value::as_str).map(String::from);
    PresentArgs {
        sel: v.get("sel").and_then(Value::as_object).cloned().unwrap_or_default(),
        nonce: s("nonce"),
        aud: s("aud"),
        key: v.get("key").and_then(Value::as_u64).and_then(crate::props::key_by_id),
        alg: s("alg"),
    }
}

fn class_of(v: &Value) -> String {
    v.get("class").and_then(Value::as_str).unwrap_or("replayed").to_string()
}

enum History {
    Issuer(IssuerHistory),
    Holder(HolderHistory),
}

fn history_of_json(h: &Value) -> Option<History> {
    match h.get("kind").and_then(Value::as_str) {
        Some("issuer") => {
            let mut calls = vec![];
            for c in h.get("calls")?.as_array()? {
                calls.push(ICall { args: issue_args_of_json(c)?, class: class_of(c) });
            }
            let key = h.get("key").and_then(Value::as_u64).and_then(crate::props::key_by_id).unwrap_or(KeyId::IssuerEc);
            let alg = h.get("alg").and_then(Value::as_str).map(String::from);
            for c in calls.iter_mut() {
                c.args.key = key;
                c.args.alg = alg.clone();
            }
            Some(History::Issuer(IssuerHistory { key, alg, calls }))
        }
        Some("holder") => {
            let issue = h.get("issue").filter(|x| !x.is_null()).and_then(issue_args_of_json);
            let input = h.get("input").and_then(Value::as_str).map(String::from);
            if issue.is_none() && input.is_none() {
                return None;
            }
            let fmt = match (h.get("fmt").and_then(Value::as_str), &issue) {
                (Some(f), _) => Fmt::from_name(f),
                (None, Some(a)) => a.fmt,
                _ => Fmt::Compact,
            };
            let calls = h.get("calls")?.as_array()?.iter().map(|c| HCall { args: present_args_of_json(c), class: class_of(c) }).collect();
            Some(History::Holder(HolderHistory { issue, input, fmt, calls }))
        }
        _ => None,
    }
}

/// a stored case: {"history": ..} (this runner's violations), or the case of a model
/// disagreement reported by flow.rs (`stage` = issue / present)
fn history_from_replay(path: &str) -> Option<History> {
    let v: Value = serde_json::from_str(&std::fs::read_to_string(path).ok()?).ok()?;
    let case = v.get("case")?;
    if let Some(h) = case.get("history") {
        return history_of_json(h);
    }
    match case.get("stage").and_then(Value::as_str) {
        Some("issue") => {
            let a = issue_args_of_json(case.get("args")?)?;
            Some(History::Issuer(IssuerHistory { key: a.key, alg: a.alg.clone(), calls: vec![ICall { args: a, class: "replayed".into() }] }))
        }
        Some("present") => Some(History::Holder(HolderHistory {
            issue: None,
            input: Some(case.get("input")?.as_str()?.to_string()),
            fmt: Fmt::from_name(case.get("fmt").and_then(Value::as_str).unwrap_or("compact")),
            calls: case.get("calls")?.as_array()?.iter().map(|c| HCall { args: present_args_of_json(c), class: "replayed".into() }).collect(),
        })),
        _ => history_of_json(case),
    }
}

// ---------------------------------------------------------------------------
// generators

fn tree_cfg(tier: Tier) -> FlowCfg {
    FlowCfg {
        tree: TreeCfg { max_depth: if tier == Tier::Quick { 3 } else { 5 }, max_fanout: if tier == Tier::Quick { 3 } else { 4 }, path_safe_names: false, plain: false },
        allow_custom: true,
        allow_kb: false,
        sel_density: 4,
    }
}

fn count_objects(v: &Value) -> usize {
    match v {
        Value::Object(m) => 1 + m.values().map(count_objects).sum::<usize>(),
        Value::Array(a) => a.iter().map(count_objects).sum(),
        _ => 0,
    }
}

/// inserts (name, val) into the n-th object of `v` (pre-order)
fn plant_nth(v: &mut Value, n: &mut usize, name: &str, val: &Value) -> bool {
    match v {
        Value::Object(m) => {
            if *n == 0 {
                m.insert(name.to_string(), val.clone());
                return true;
            }
            *n -= 1;
            for (_, x) in m.iter_mut() {
                if plant_nth(x, n, name, val) {
                    return true;
                }
            }
            false
        }
        Value::Array(a) => {
            for x in a.iter_mut() {
                if plant_nth(x, n, name, val) {
                    return true;
                }
            }
            false
        }
        _ => false,
    }
}

fn gen_holder_key(r: &mut Rng) -> Option<KeyId> {
    match r.below(4) {
        0 => None,
        1 => Some(KeyId::HolderEc),
        2 => Some(KeyId::HolderEc2),
        _ => Some(KeyId::HolderEd),
    }
}

pub fn gen_issuer_history(r: &mut Rng, tier: Tier) -> IssuerHistory {
    let cfg = tree_cfg(tier);
    let (key, alg) = gen_issuer_key(r);
    let n = r.range(1, 8);
    let mut calls: Vec<ICall> = vec![];
    for _ in 0..n {
        let mut a = gen_flow(r, &cfg).issue;
        a.key = key;
        a.alg = alg.clone();
        a.holder = gen_holder_key(r);
        a.decoy = r.chance(1, 2);
        a.fmt = if r.chance(1, 2) { Fmt::Compact } else { Fmt::Json };
        // now and then the previous subject's claims again, with other settings
        if r.chance(1, 6) {
            if let Some(prev) = calls.iter().rev().find(|c| c.class == "ok") {
                a.claims = prev.args.claims.clone();
                a.strategy = if r.chance(1, 2) { prev.args.strategy.clone() } else { gen_strategy(r, &a.claims, false) };
            }
        }
        // a credential with nothing to disclose (only the always-visible claims) now and then: whatever the instance keeps
        // from the previous call has nothing to be replaced by
        if r.chance(1, 8) {
            a.claims = match r.below(3) {
                0 => json!({"iss": "https://issuer.example", "exp": now() + 100000}),
                1 => json!({"iss": "https://issuer.example", "iat": now() - 5, "exp": now() + 100000}),
                _ => json!({"exp": now() + 100000, "iss": "https://issuer.example", "empty": {}}),
            };
            a.strategy = if r.chance(1, 2) { Strategy::All } else { Strategy::Top };
        }
        // now and then the claims bring their own top-level cnf (visible or hidden) while a holder key is passed: whatever the
        // instance does with the key then must not reach the next call
        if r.chance(1, 10) {
            if let Some(m) = a.claims.as_object_mut() {
                m.insert("cnf".into(), json!({"jwk": {"kty": "EC", "crv": "P-256", "x": "upstream"}, "kid": "upstream-key"}));
            }
            a.strategy = match r.below(3) { 0 => Strategy::None, 1 => Strategy::Custom(vec![]), _ => a.strategy.clone() };
            if a.holder.is_none() {
                a.holder = Some(KeyId::HolderEc);
            }
        }
        let mut class = "ok";
        match r.below(10) {
            0 => {
                class = "non_object_claims";
                a.claims = match r.below(7) {
                    0 => json!([1, 2]),
                    1 => json!("just a string"),
                    2 => json!(7),
                    3 => Value::Null,
                    4 => json!(true),
                    5 => json!([{"a": 1, "iss": "https://issuer.example"}]),
                    _ => json!([]),
                };
            }
            1 => {
                class = "bad_path";
                let mut paths = match &a.strategy {
                    Strategy::Custom(p) => p.clone(),
                    _ => {
                        let mut ps = vec![];
                        all_positions(&a.claims, &vec![], &mut ps);
                        let mut out = vec![];
                        for p in &ps {
                            if r.chance(1, 3) {
                                out.push(spell(r, p));
                            }
                        }
                        out
                    }
                };
                let bad = *r.pick(&["address", "$address", "", "a.b", "$[0]", " $.a", ".a", "$"]);
                let at = r.below(paths.len() + 1);
                paths.insert(at, bad.to_string());
                a.strategy = Strategy::Custom(paths);
            }
            2 => {
                class = "reserved_name";
                let name = if r.chance(1, 2) { "_sd" } else { "..." };
                let val = match r.below(4) {
                    0 => json!("x"),
                    1 => json!(["digest-like-WYZ"]),
                    2 => json!({"a": 1}),
                    _ => gen_leaf(r, false),
                };
                let mut n = r.below(count_objects(&a.claims).max(1));
                plant_nth(&mut a.claims, &mut n, name, &val);
            }
            _ => {}
        }
        calls.push(ICall { args: a, class: class.to_string() });
    }
    IssuerHistory { key, alg, calls }
}

fn insert_at(m: &Map<String, Value>, at: usize, k: &str, v: Value) -> Map<String, Value> {
    let mut items: Vec<(String, Value)> = m.iter().filter(|(x, _)| x.as_str() != k).map(|(a, b)| (a.clone(), b.clone())).collect();
    let at = at.min(items.len());
    items.insert(at, (k.to_string(), v));
    items.into_iter().collect()
}

pub fn gen_holder_history(r: &mut Rng, tier: Tier) -> HolderHistory {
    let cfg = tree_cfg(tier);
    let mut issue = gen_flow(r, &cfg).issue;
    issue.holder = gen_holder_key(r);
    // now and then a credential with very many disclosures (limits on counts), presented in full first
    let wide = r.chance(1, 30);
    if wide {
        let n = r.range(135, 220);
        issue.claims = gen_wide_claims(r, n, now());
        issue.strategy = Strategy::All;
        issue.decoy = false;
    }
    let claims = issue.claims.clone();
    let n = if wide { r.range(3, 5) } else { r.range(1, 8) };
    let twin_kb = r.chance(1, 6);
    let mut calls = vec![];
    for ci in 0..n {
        let sel = match if wide && ci == 0 { 0 } else { r.below(6) } {
            0 => select_all(&claims),
            1 => json!({}),
            _ => {
                let d = r.range(2, 6);
                gen_selection(r, &claims, d)
            }
        };
        let mut sel = sel;
        // the members of a selection object come in any order (the order of the disclosures in the presentation follows it);
        // now and then the previous call's selection again with its members in another order
        let mut force_kb = false;
        if r.chance(1, 4) {
            if let Some(prev) = calls.last().map(|c: &HCall| (c.args.sel.clone(), c.class.clone())) {
                sel = Value::Object(prev.0);
                force_kb = prev.1 == "kb";
            }
            sel = reorder_members(r, &sel, true);
        } else if r.chance(1, 4) {
            sel = reorder_members(r, &sel, false);
        }
        let mut a = PresentArgs::plain(sel.as_object().cloned().unwrap_or_default());
        let mut class = "plain";
        let good_kb = |r: &mut Rng, a: &mut PresentArgs| {
            let k = gen_kb(r);
            a.nonce = Some(k.nonce);
            a.aud = Some(k.aud);
            a.key = Some(k.key);
            a.alg = k.alg;
        };
        match r.below(10) {
            0 => {
                class = "inconsistent_kb";
                good_kb(r, &mut a);
                // one of the six partial combinations of (nonce, aud, key)
                match r.below(6) {
                    0 => a.key = None,
                    1 => a.aud = None,
                    2 => a.nonce = None,
                    3 => {
                        a.aud = None;
                        a.key = None;
                    }
                    4 => {
                        a.nonce = None;
                        a.key = None;
                    }
                    _ => {
                        a.nonce = None;
                        a.aud = None;
                    }
                }
            }
            1 => {
                class = "unknown_claim";
                if r.chance(1, 3) {
                    good_kb(r, &mut a);
                }
                let at = r.below(a.sel.len() + 1);
                let objs: Vec<String> = claims.as_object().map(|m| m.iter().filter(|(_, v)| v.is_object()).map(|(k, _)| k.clone()).collect()).unwrap_or_default();
                match r.below(3) {
                    0 => a.sel = insert_at(&a.sel, at, "no_such_member_zz", json!(true)),
                    1 => a.sel = insert_at(&a.sel, at, "zz", json!({"q": true})),
                    _ => {
                        if objs.is_empty() {
                            a.sel = insert_at(&a.sel, at, "no_such_member_zz", json!(true));
                        } else {
                            let k = r.pick(&objs).clone();
                            a.sel = insert_at(&a.sel, at, &k, json!({"no_such_member_zz": true}));
                        }
                    }
                }
            }
            2 => {
                class = "kb_bad_alg";
                good_kb(r, &mut a);
                let (k, alg) = *r.pick(&[(KeyId::HolderEd, "ES256"), (KeyId::HolderEc, "EdDSA"), (KeyId::HolderEc, "XX256"), (KeyId::HolderEc, "HS256"), (KeyId::HolderEd, "HS512")]);
                a.key = Some(k);
                a.alg = Some(alg.to_string());
            }
            3..=5 => {
                class = "kb";
                good_kb(r, &mut a);
            }
            _ => {}
        }
        if force_kb && class == "plain" {
            class = "kb";
            good_kb(r, &mut a);
        }
        calls.push(HCall { args: a.clone(), class: class.to_string() });
        // the same key-bound call again at once, signed with another key of the same family (and the same kid)
        if twin_kb && class == "kb" && calls.len() < 8 {
            if let Some(k) = a.key {
                if k.fam() == Fam::Ec {
                    let mut b = a.clone();
                    b.key = Some(other_key_same_family(k));
                    calls.push(HCall { args: b, class: "kb".to_string() });
                }
            }
        }
    }
    let fmt = issue.fmt;
    HolderHistory { issue: Some(issue), input: None, fmt, calls }
}

// ---------------------------------------------------------------------------
// reading results

/// every digest of a JSON value: the strings of `_sd` lists and of `{"...": d}` placeholders
fn digests(v: &Value, out: &mut Vec<String>) {
    match v {
        Value::Object(m) => {
            for (k, x) in m {
                if k == "_sd" {
                    if let Some(a) = x.as_array() {
                        out.extend(a.iter().filter_map(|d| d.as_str().map(String::from)));
                        continue;
                    }
                }
                if k == "..." {
                    if let Some(d) = x.as_str() {
                        out.push(d.to_string());
                        continue;
                    }
                }
                digests(x, out);
            }
        }
        Value::Array(a) => a.iter().for_each(|x| digests(x, out)),
        _ => {}
    }
}

/// a value with everything random blanked: `_sd` lists and placeholder digests
fn blank(v: &Value) -> Value {
    match v {
        Value::Object(m) => Value::Object(
            m.iter()
                .map(|(k, x)| {
                    if (k == "_sd" && x.is_array()) || (k == "..." && x.is_string()) {
                        (k.clone(), json!("*"))
                    } else {
                        (k.clone(), blank(x))
                    }
                })
                .collect(),
        ),
        Value::Array(a) => Value::Array(a.iter().map(blank).collect()),
        _ => v.clone(),
    }
}

/// what an issued SD-JWT is "up to fresh salts, decoys and signature randomness"
fn shape(p: &Parts) -> Value {
    let mut ds: Vec<String> = p
        .disclosures
        .iter()
        .map(|d| match decode_disclosure(d) {
            Some(Value::Array(mut a)) => {
                if !a.is_empty() {
                    a[0] = json!("*");
                }
                serde_json::to_string(&blank(&Value::Array(a))).unwrap()
            }
            other => format!("undecodable:{:?}", other),
        })
        .collect();
    ds.sort();
    json!({"header": p.header(), "payload": p.payload().map(|x| blank(&x)), "disclosures": ds, "kb": p.kb})
}

fn all_digests(p: &Parts) -> Vec<String> {
    let mut out = vec![];
    if let Some(pl) = p.payload() {
        digests(&pl, &mut out);
    }
    for d in &p.disclosures {
        if let Some(v) = decode_disclosure(d) {
            digests(&v, &mut out);
        }
    }
    out
}

fn kb_decoded(kb: &str) -> (Option<Value>, Option<Value>) {
    let mut it = kb.split('.');
    (it.next().and_then(unb64_json), it.next().and_then(unb64_json))
}

fn without_iat(v: &Option<Value>) -> Option<Value> {
    v.clone().map(|mut x| {
        if let Some(m) = x.as_object_mut() {
            m.remove("iat");
        }
        x
    })
}

// ---------------------------------------------------------------------------
// issuer histories

struct IssuerRun {
    seq: Vec<IssueRes>,
    fresh: Vec<IssueRes>,
    /// select-everything presentation and its verification, per successful call
    follow: Vec<Option<(Outcome<String>, Option<VerifyRes>)>>,
    req0: usize,
}

fn run_issuer_history(ctx: &mut Ctx, h: &IssuerHistory, reqs: &mut Vec<Value>) -> Option<IssuerRun> {
    let args: Vec<IssueArgs> = h.calls.iter().map(|c| c.args.clone()).collect();
    ctx.impl_calls += args.len();
    let seq = match issue_sequence(h.key, h.alg.clone(), args.clone()) {
        Some(s) => s,
        None => {
            ctx.violation("oracle", "issue", "a sequence of issue_sd_jwt calls on one issuer did not return", json!({"history": h.json()}), json!({"r": "timeout"}), json!("every call returns Ok or Err"));
            return None;
        }
    };
    let mut fresh = vec![];
    let mut follow = vec![];
    for (a, r) in args.iter().zip(&seq) {
        fresh.push(issue(a));
        ctx.impl_calls += 1;
        follow.push(match r.out.ok() {
            Some(s) => {
                let sel = select_all(&a.claims).as_object().cloned().unwrap_or_default();
                let (p, _, _) = present(s, a.fmt, &PresentArgs::plain(sel));
                ctx.impl_calls += 1;
                let v = p.ok().map(|pt| {
                    ctx.impl_calls += 1;
                    verify(&VerifyArgs { input: pt.clone(), fmt: a.fmt, resolver: Resolver::always(a.key), aud: None, nonce: None })
                });
                Some((p, v))
            }
            None => None,
        });
    }
    let req0 = reqs.len();
    for (a, r) in args.iter().zip(&seq) {
        let i = reqs.len();
        reqs.push(issue_request(i, a, r));
        reqs.push(spec_annotate_request(i + 1, &a.claims, &a.strategy));
    }
    Some(IssuerRun { seq, fresh, follow, req0 })
}

/// (i) the stateless model on the draws logged for each call of the sequence
fn compare_issuer_history(ctx: &mut Ctx, h: &IssuerHistory, run: &IssuerRun, resp: &[Value]) {
    for (k, c) in h.calls.iter().enumerate() {
        cmp_issue(ctx, &c.args, &run.seq[k], &resp[run.req0 + 2 * k], true);
    }
}

/// (i) the model threads its holder state through the same calls
fn compare_holder_history(ctx: &mut Ctx, h: &HolderHistory, run: &HolderRun, resp: &[Value]) {
    let calls: Vec<PresentArgs> = h.calls.iter().map(|c| c.args.clone()).collect();
    cmp_holder(ctx, &run.input, h.fmt, &calls, &run.seq, &resp[run.req]);
}

fn judge_issuer_history(ctx: &mut Ctx, h: &IssuerHistory, run: &IssuerRun, resp: &[Value]) {
    let hj = h.json();
    let mut earlier_disclosures: HashSet<String> = HashSet::new();
    let mut earlier_digests: HashSet<String> = HashSet::new();
    let mut failed_before = false;
    let mut ok_after_failure = false;
    let mut problems_seen = false;
    for (k, c) in h.calls.iter().enumerate() {
        let a = &c.args;
        let r = &run.seq[k];
        let f = &run.fresh[k];
        let spec = &resp[run.req0 + 2 * k + 1];
        ctx.oracle_checks += 1;
        ctx.count(&format!("issuer_call.{}.{}", c.class, r.out.class()));
        let case = json!({"history": hj, "call": k});
        // (ii) the implementation against a fresh instance and against the call's own arguments
        if matches!(r.out, Outcome::Panic(_) | Outcome::Timeout) {
            ctx.violation("oracle", "issue", &format!("call {} on a reused issuer panicked or did not return", k), case, r.out.describe(), json!("Ok or Err"));
            problems_seen = true;
            continue;
        }
        if r.out.class() != f.out.class() {
            ctx.violation(
                "oracle",
                "issue",
                &format!("call {} on a reused issuer {} while a fresh issuer given the same arguments {}", k, if r.out.is_ok() { "succeeds" } else { "fails" }, if f.out.is_ok() { "succeeds" } else { "fails" }),
                case,
                json!({"reused": r.out.describe()}),
                json!({"fresh": f.out.describe()}),
            );
            problems_seen = true;
            continue;
        }
        let s = match &r.out {
            Outcome::Ok(s) => s,
            _ => {
                if c.class == "ok" {
                    ctx.count("valid_call_refused_by_reused_and_fresh(C01/C05 judge)");
                }
                failed_before = true;
                continue;
            }
        };
        if c.class != "ok" && c.class != "replayed" {
            ctx.count("call_built_to_fail_accepted_by_reused_and_fresh(C05/C13 judge)");
        }
        if failed_before {
            ok_after_failure = true;
        }
        let mut problems: Vec<String> = vec![];
        let parts = match split(a.fmt, s) {
            Some(p) => p,
            None => {
                ctx.violation("oracle", "issue", &format!("call {}: the result is not in the serialization format requested by this call", k), case, json!(s), json!(a.fmt.name()));
                problems_seen = true;
                continue;
            }
        };
        if a.fmt == Fmt::Compact && !s.ends_with('~') {
            problems.push("compact result does not end with ~ (something follows the disclosures)".into());
        }
        if parts.kb.is_some() {
            problems.push("the issued SD-JWT carries a key-binding JWT".into());
        }
        // nothing of an earlier result
        let mut own = HashSet::new();
        for d in &parts.disclosures {
            if earlier_disclosures.contains(d) {
                problems.push("a disclosure of an earlier result of this issuer appears again".into());
            }
            if !own.insert(d.clone()) {
                problems.push("a disclosure appears twice".into());
            }
        }
        let digs = all_digests(&parts);
        if digs.iter().any(|d| earlier_digests.contains(d)) {
            problems.push("a digest (of a disclosure or a decoy) of an earlier result of this issuer appears again".into());
        }
        // the holder key of this call, and only of this call
        let payload = parts.payload().unwrap_or(Value::Null);
        let cnf_expected = a.holder.map(|hk| json!({"jwk": hk.jwk_json().unwrap()}));
        // (a claim set that brings its own top-level cnf is outside C01's claim sets: what such a call itself returns is judged
        // by the comparison with a fresh issuer and with the model only)
        let user_cnf = a.claims.get("cnf").is_some();
        if !user_cnf && payload.get("cnf") != cnf_expected.as_ref() {
            problems.push("cnf is not exactly the holder key passed to this call (absent when none was passed)".into());
        }
        // as many disclosures as this call's claims and strategy hide
        let hidden = hidden_set(spec);
        if spec.get("strategy_ok").and_then(Value::as_bool) == Some(true) && a.claims.is_object() {
            if parts.disclosures.len() != hidden.len() {
                problems.push(format!("{} disclosures, but this call's claims and strategy hide {} positions", parts.disclosures.len(), hidden.len()));
            }
        }
        // what a fresh instance produces, up to salts, decoys and signature
        let fparts = f.out.ok().and_then(|fs| split(a.fmt, fs));
        let fresh_shape = fparts.as_ref().map(shape);
        if let Some(fs) = &fresh_shape {
            if *fs != shape(&parts) {
                problems.push("header, payload or disclosures differ from a fresh issuer's beyond salts, digests and signature".into());
            }
        }
        // the result stands on its own: select everything, verify
        let expected_claims = with_cnf(&a.claims, a.holder);
        match &run.follow[k] {
            _ if user_cnf => {}
            Some((Outcome::Ok(_), Some(v))) => match &v.out {
                Outcome::Ok(c) => {
                    if *c != expected_claims {
                        problems.push("verifying the result (everything selected) does not return this call's claims".into());
                    }
                }
                _ => problems.push("the verifier rejects the result (everything selected)".into()),
            },
            Some((_, _)) => problems.push("a holder cannot present the result with everything selected".into()),
            None => {}
        }
        let mut seen_p = HashSet::new();
        problems.retain(|p| seen_p.insert(p.clone()));
        if !problems.is_empty() {
            problems_seen = true;
            let verified = run.follow[k].as_ref().and_then(|(_, v)| v.as_ref()).map(|v| v.out.describe());
            ctx.violation(
                "oracle",
                "issue",
                &format!("call {} on a reused issuer: {}", k, problems[0]),
                case,
                json!({"problems": problems, "result": s, "payload": payload, "disclosures": parts.disclosures.iter().map(|d| decode_disclosure(d)).collect::<Vec<_>>(), "verified": verified}),
                json!({"fresh_instance": fresh_shape, "hidden_positions": hidden.len(), "claims": expected_claims}),
            );
        }
        earlier_disclosures.extend(parts.disclosures.iter().cloned());
        earlier_digests.extend(digs);
    }
    let distinct_args: HashSet<String> = h.calls.iter().map(|c| serde_json::to_string(&c.args.json()).unwrap()).collect();
    ctx.count(&format!("issuer_history.len{}", h.calls.len()));
    if !problems_seen && ((h.calls.len() >= 2 && distinct_args.len() >= 2) || ok_after_failure) {
        ctx.nontrivial(&hj);
    }
    if ok_after_failure {
        ctx.count("issuer_history.success_after_failure");
    }
}

// ---------------------------------------------------------------------------
// holder histories

struct HolderRun {
    input: String,
    seq: HolderRes,
    fresh: Vec<Outcome<String>>,
    req: usize,
}

fn run_holder_history(ctx: &mut Ctx, h: &HolderHistory, reqs: &mut Vec<Value>) -> Option<HolderRun> {
    let input = match (&h.input, &h.issue) {
        (Some(s), _) => s.clone(),
        (None, Some(a)) => {
            ctx.impl_calls += 1;
            match issue(a).out {
                Outcome::Ok(s) => s,
                _ => {
                    ctx.count("holder_history.issuance_failed(skipped; C01 judges)");
                    return None;
                }
            }
        }
        _ => return None,
    };
    let calls: Vec<PresentArgs> = h.calls.iter().map(|c| c.args.clone()).collect();
    let seq = holder_session(&input, h.fmt, &calls);
    ctx.impl_calls += 1 + calls.len();
    let mut fresh = vec![];
    for c in &calls {
        fresh.push(present(&input, h.fmt, c).0);
        ctx.impl_calls += 2;
    }
    let req = reqs.len();
    reqs.push(holder_request(req, &input, h.fmt, &calls, &seq));
    Some(HolderRun { input, seq, fresh, req })
}

fn judge_holder_history(ctx: &mut Ctx, h: &HolderHistory, run: &HolderRun) {
    let mut stored = h.clone();
    stored.input = Some(run.input.clone());
    let hj = stored.json();
    if !run.seq.new.is_ok() {
        ctx.count("holder_history.holder_new_failed(skipped; C01 judges)");
        return;
    }
    let issued = split(h.fmt, &run.input);
    let mut failed_before = false;
    let mut ok_after_failure = false;
    let mut problems_seen = false;
    let mut ok_calls = 0;
    for (k, c) in h.calls.iter().enumerate() {
        let a = &c.args;
        let r = match run.seq.calls.get(k) {
            Some(r) => &r.out,
            None => continue,
        };
        let f = &run.fresh[k];
        ctx.oracle_checks += 1;
        ctx.count(&format!("holder_call.{}.{}.{}", h.fmt.name(), c.class, r.class()));
        let case = json!({"history": hj, "call": k});
        if matches!(r, Outcome::Panic(_) | Outcome::Timeout) {
            ctx.violation("oracle", "present", &format!("call {} on a reused holder panicked or did not return", k), case, r.describe(), json!("Ok or Err"));
            problems_seen = true;
            continue;
        }
        if r.class() != f.class() {
            ctx.violation(
                "oracle",
                "present",
                &format!("call {} on a reused holder {} while a fresh holder given the same arguments {}", k, if r.is_ok() { "succeeds" } else { "fails" }, if f.is_ok() { "succeeds" } else { "fails" }),
                case,
                json!({"reused": r.describe()}),
                json!({"fresh": f.describe()}),
            );
            problems_seen = true;
            continue;
        }
        let (s, fs) = match (r, f) {
            (Outcome::Ok(s), Outcome::Ok(fs)) => (s, fs),
            _ => {
                if c.class == "plain" || c.class == "kb" {
                    ctx.count("valid_call_refused_by_reused_and_fresh(C06 judges)");
                }
                failed_before = true;
                continue;
            }
        };
        if !matches!(c.class.as_str(), "plain" | "kb" | "replayed") {
            ctx.count("call_built_to_fail_accepted_by_reused_and_fresh(C06/C07 judge)");
        }
        ok_calls += 1;
        if failed_before {
            ok_after_failure = true;
        }
        let (p, fp) = match (split(h.fmt, s), split(h.fmt, fs)) {
            (Some(p), Some(fp)) => (p, fp),
            (None, _) => {
                ctx.violation("oracle", "present", &format!("call {}: the presentation is not in the holder's serialization format", k), case, json!(s), json!(h.fmt.name()));
                problems_seen = true;
                continue;
            }
            _ => continue,
        };
        let mut problems: Vec<String> = vec![];
        if let Some(i) = &issued {
            if p.jwt != i.jwt {
                problems.push("the issuer-signed JWT is not the one the holder was given".into());
            }
        }
        if p.jwt != fp.jwt {
            problems.push("the issuer-signed JWT differs from a fresh holder's".into());
        }
        if sorted(p.disclosures.clone()) != sorted(fp.disclosures.clone()) {
            problems.push("the disclosures differ from those a fresh holder selects for this call (left over from, or missing because of, an earlier call)".into());
        }
        let requested = a.nonce.is_some() && a.aud.is_some() && a.key.is_some();
        if p.kb.is_some() != requested {
            problems.push(if requested { "no key-binding JWT although this call requested one".to_string() } else { "a key-binding JWT although this call requested none".to_string() });
        }
        if let (Some(kb), true) = (&p.kb, requested) {
            let (hd, pl) = kb_decoded(kb);
            if pl.as_ref().and_then(|x| x.get("nonce")).and_then(Value::as_str) != a.nonce.as_deref() || pl.as_ref().and_then(|x| x.get("aud")).and_then(Value::as_str) != a.aud.as_deref() {
                problems.push("the key-binding JWT does not carry this call's nonce and audience".into());
            }
            // signed by THIS call's key (not by a key of an earlier call): checked with the real cryptography
            if let (Some(k), Some((msg, sig))) = (a.key, kb.rsplit_once('.')) {
                let alg = hd.as_ref().and_then(|x| x.get("alg")).and_then(Value::as_str).and_then(alg_of_name);
                if let Some(alg) = alg {
                    if !jsonwebtoken::crypto::verify(sig, msg.as_bytes(), &k.decoding(), alg).unwrap_or(false) {
                        problems.push("the key-binding JWT is not signed by the key passed to this call".into());
                    }
                }
            }
            if let Some(fkb) = &fp.kb {
                let (fhd, fpl) = kb_decoded(fkb);
                if hd != fhd || without_iat(&pl) != without_iat(&fpl) {
                    problems.push("the key-binding JWT differs from a fresh holder's beyond iat and signature".into());
                }
            }
        }
        if h.fmt == Fmt::Compact && *s != p.compact() {
            problems.push("compact presentation is not exactly jwt~d1~...~dn~[kb]".into());
        }
        if !problems.is_empty() {
            problems_seen = true;
            ctx.violation(
                "oracle",
                "present",
                &format!("call {} on a reused holder: {}", k, problems[0]),
                case,
                json!({"problems": problems, "reused": s, "disclosures": p.disclosures.iter().map(|d| decode_disclosure(d)).collect::<Vec<_>>(), "kb": p.kb.as_deref().map(kb_decoded)}),
                json!({"fresh": fs, "disclosures": fp.disclosures.iter().map(|d| decode_disclosure(d)).collect::<Vec<_>>(), "kb": fp.kb.as_deref().map(kb_decoded)}),
            );
        }
    }
    let distinct_args: HashSet<String> = h.calls.iter().map(|c| serde_json::to_string(&c.args.json()).unwrap()).collect();
    ctx.count(&format!("holder_history.{}.len{}", h.fmt.name(), h.calls.len()));
    ctx.count(&format!("holder_history.{}.presentations_from_one_holder.{}", h.fmt.name(), match ok_calls { 0 => "0", 1 => "1", 2..=3 => "2-3", _ => "4+" }));
    // distinct by the history without the (random) issued text
    if !problems_seen && ((h.calls.len() >= 2 && distinct_args.len() >= 2) || ok_after_failure) {
        let mut d = h.clone();
        d.input = None;
        ctx.nontrivial(&d.json());
    }
    if ok_after_failure {
        ctx.count("holder_history.success_after_failure");
    }
}

// ---------------------------------------------------------------------------

pub fn run(ctx: &mut Ctx, replay: Option<&str>) {
    ctx.rule = "issuer histories: 1..8 issue_sd_jwt calls on one SDJWTIssuer with independently drawn claims (sometimes the previous subject's again), strategy, holder key (none/EC/Ed), decoy flag and format, \
                10% each built to fail (non-object claims; a Custom path without \"$.\"; a member named _sd or ...); every call compared with the stateless model on the call's own logged draws and with a fresh issuer \
                (same outcome class, same header/payload/disclosures up to salts, digests and signature, requested format, cnf = this call's key, #disclosures = #hidden positions, no disclosure or digest of an earlier result, select-all + verify returns this call's claims). \
                holder histories: 1..8 create_presentation calls on one SDJWTHolder (compact or JSON) with independently drawn selections and key-binding arguments (none; nonce+aud+key; partial combinations, unknown claims and key/alg mismatches, which fail); \
                every call compared with the model's holder state machine and with a fresh holder (same outcome class, JWT, disclosure multiset, KB-JWT iff requested with this call's nonce/aud). \
                non-trivial = length >= 2 with at least two calls differing in their arguments, or a failing call followed by a succeeding one; distinct by the full history".into();
    let mut issuer_hs: Vec<IssuerHistory> = vec![];
    let mut holder_hs: Vec<HolderHistory> = vec![];
    if let Some(path) = replay {
        match history_from_replay(path) {
            Some(History::Issuer(h)) => issuer_hs.push(h),
            Some(History::Holder(h)) => holder_hs.push(h),
            None => ctx.notes.push(format!("replay file {} holds no C11 history", path)),
        }
    } else {
        let n = ctx.tier.pick(300, 10000);
        for i in 0..n {
            let mut r = ctx.rng.fork(i as u64);
            issuer_hs.push(gen_issuer_history(&mut r, ctx.tier));
        }
        for i in 0..n {
            let mut r = ctx.rng.fork(0x1_0000_0000 + i as u64);
            holder_hs.push(gen_holder_history(&mut r, ctx.tier));
        }
        // issuer histories of calls whose PAYLOADS are byte-identical (nothing hidden, no decoys, same holder key) while the
        // requested format changes from call to call; and the same claims again after each kind of refused call
        for i in 0..ctx.tier.pick(8, 60) {
            let mut r = ctx.rng.fork(0x5_0000_0000 + i as u64);
            let (key, alg) = gen_issuer_key(&mut r);
            let claims = gen_flow(&mut r, &tree_cfg(ctx.tier)).issue.claims;
            let holder = if i % 3 == 0 { Some(KeyId::HolderEc) } else { None };
            let st = match i % 3 { 0 => Strategy::None, 1 => Strategy::Custom(vec![]), _ => Strategy::Custom(vec!["$.no.such.claim".into()]) };
            let fmts = [Fmt::Compact, Fmt::Json, Fmt::Json, Fmt::Compact, Fmt::Json, Fmt::Compact];
            let mut calls: Vec<ICall> = vec![];
            for (c, fmt) in fmts.iter().enumerate() {
                let mut a = IssueArgs { claims: claims.clone(), strategy: st.clone(), holder, decoy: false, fmt: *fmt, key, alg: alg.clone(), queue: None };
                if i % 4 == 3 && c == 3 {
                    a.holder = Some(KeyId::HolderEd);
                }
                calls.push(ICall { args: a.clone(), class: "ok".into() });
                if i % 2 == 1 && c == 1 {
                    let mut bad = a.clone();
                    bad.claims = if i % 4 == 1 { json!(["not", "an", "object"]) } else { json!({"iss": "x", "exp": 1, "o": {"...": 1}}) };
                    calls.push(ICall { args: bad, class: if i % 4 == 1 { "non_object_claims".into() } else { "reserved_name".into() } });
                }
            }
            calls.truncate(8);
            issuer_hs.push(IssuerHistory { key, alg, calls });
            ctx.count("issuer_history.identical_payloads_changing_format");
        }
        // holder histories on a credential with many disclosures: a presentation, a call that is refused for its key-binding
        // arguments (another selection), the first presentation again
        for i in 0..ctx.tier.pick(6, 40) {
            let mut r = ctx.rng.fork(0x6_0000_0000 + i as u64);
            let mut issue = gen_flow(&mut r, &tree_cfg(ctx.tier)).issue;
            issue.claims = gen_wide_claims(&mut r, if i % 2 == 0 { 70 } else { 140 }, now());
            issue.strategy = Strategy::All;
            issue.decoy = i % 3 == 0;
            issue.holder = Some(KeyId::HolderEc);
            issue.fmt = if i % 2 == 0 { Fmt::Compact } else { Fmt::Json };
            let inside = issue.claims.get("wide").is_some();
            let wrap = |m: Value, l: Value| if inside { json!({"wide": m, "list": l}) } else { let mut o = m.as_object().cloned().unwrap(); o.insert("list".into(), l); Value::Object(o) };
            let s_sel = wrap(json!({"m0001": true, "m0002": true}), json!([true, false, true]));
            let t_sel = wrap(json!({"m0003": true, "m0004": true, "m0005": true}), json!([false, true]));
            let plain = |v: &Value| PresentArgs::plain(v.as_object().cloned().unwrap_or_default());
            let bad = match i % 3 { 0 => PresentArgs { sel: t_sel.as_object().cloned().unwrap(), nonce: Some("n".into()), aud: None, key: None, alg: None },
                                    1 => PresentArgs { sel: t_sel.as_object().cloned().unwrap(), nonce: Some("n".into()), aud: Some("a".into()), key: Some(KeyId::HolderEc), alg: Some("ES512".into()) },
                                    _ => PresentArgs { sel: t_sel.as_object().cloned().unwrap(), nonce: None, aud: Some("a".into()), key: Some(KeyId::HolderEc), alg: None } };
            let calls = vec![HCall { args: plain(&s_sel), class: "plain".into() }, HCall { args: bad.clone(), class: if i % 3 == 1 { "kb_bad_alg".into() } else { "inconsistent_kb".into() } }, HCall { args: plain(&s_sel), class: "plain".into() },
                             HCall { args: plain(&t_sel), class: "plain".into() }, HCall { args: bad, class: "inconsistent_kb".into() }, HCall { args: plain(&t_sel), class: "plain".into() }];
            let fmt = issue.fmt;
            holder_hs.push(HolderHistory { issue: Some(issue), input: None, fmt, calls });
            ctx.count("holder_history.wide_credential_refused_call_between_equal_calls");
        }
        // every kind of failing call between a key-bound presentation and an unbound one (and a second round with other
        // arguments): what a failing call leaves half-done must not reach the next one
        {
            let fails: Vec<(&str, Box<dyn Fn(&mut PresentArgs)>)> = vec![
                ("nonce-only", Box::new(|a: &mut PresentArgs| { a.aud = None; a.key = None; })),
                ("aud-only", Box::new(|a: &mut PresentArgs| { a.nonce = None; a.key = None; })),
                ("key-only", Box::new(|a: &mut PresentArgs| { a.nonce = None; a.aud = None; })),
                ("no-key", Box::new(|a: &mut PresentArgs| { a.key = None; })),
                ("unknown-alg-ES512", Box::new(|a: &mut PresentArgs| { a.alg = Some("ES512".into()); })),
                ("unknown-alg-empty", Box::new(|a: &mut PresentArgs| { a.alg = Some(String::new()); })),
                ("unknown-alg-lowercase", Box::new(|a: &mut PresentArgs| { a.alg = Some("es256".into()); })),
                ("unknown-alg-none", Box::new(|a: &mut PresentArgs| { a.alg = Some("none".into()); })),
                ("alg-of-another-family", Box::new(|a: &mut PresentArgs| { a.alg = Some("HS256".into()); })),
                ("alg-of-another-curve", Box::new(|a: &mut PresentArgs| { a.alg = Some("EdDSA".into()); })),
                ("unknown-claim", Box::new(|a: &mut PresentArgs| { a.sel.insert("no_such_member_zz".into(), json!({"q": true})); })),
            ];
            for (fi, (fname, spoil)) in fails.iter().enumerate() {
                let mut r = ctx.rng.fork(0x4_0000_0000 + fi as u64);
                let cfg = tree_cfg(ctx.tier);
                let mut issue = gen_flow(&mut r, &cfg).issue;
                issue.holder = Some(KeyId::HolderEc);
                issue.fmt = if fi % 2 == 0 { Fmt::Compact } else { Fmt::Json };
                let claims = issue.claims.clone();
                let kb = |r: &mut Rng, sel: Value| PresentArgs { sel: sel.as_object().cloned().unwrap_or_default(), nonce: Some(format!("nonce-{}", r.next() % 1000)), aud: Some("https://verifier.example".into()), key: Some(KeyId::HolderEc), alg: Some("ES256".into()) };
                let mut calls = vec![];
                for round in 0..2 {
                    let sel_good = if round == 0 { select_all(&claims) } else { gen_selection(&mut r, &claims, 3) };
                    let good = kb(&mut r, sel_good);
                    let sel_bad = gen_selection(&mut r, &claims, 3);
                    let mut bad = kb(&mut r, sel_bad);
                    spoil(&mut bad);
                    calls.push(HCall { args: good, class: "kb".into() });
                    calls.push(HCall { args: bad, class: if fname.starts_with("unknown-claim") { "unknown_claim".into() } else if fname.contains("alg") { "kb_bad_alg".into() } else { "inconsistent_kb".into() } });
                    calls.push(HCall { args: PresentArgs::plain(gen_selection(&mut r, &claims, 3).as_object().cloned().unwrap_or_default()), class: "plain".into() });
                }
                let fmt = issue.fmt;
                holder_hs.push(HolderHistory { issue: Some(issue), input: None, fmt, calls });
                ctx.count(&format!("holder_history.bound_failing_unbound.{}", fname));
            }
        }
        // histories whose failing calls fail DEEP inside the claims (a reserved name at the bottom of a chain of objects and
        // arrays, or a bad path after deep paths), again and again, before a call that must succeed: whatever a failing call
        // leaves behind adds up over the history
        for i in 0..ctx.tier.pick(12, 120) {
            let mut r = ctx.rng.fork(0x2_0000_0000 + i as u64);
            let (key, alg) = gen_issuer_key(&mut r);
            let mut calls = vec![];
            let total = 8;
            let fails = if i % 3 == 0 { 7 } else { r.range(4, 6) };
            for c in 0..total {
                let depth = r.range(40, 62);
                let failing = c < fails;
                let mut v = if failing { json!({"leaf": 1, (if r.chance(1, 2) { "_sd" } else { "..." }): ["x"]}) } else { json!({"leaf": 1, "other": [1, {"k": null}]}) };
                for d in 0..depth {
                    v = if (d + i) % 3 == 0 { json!([v]) } else { json!({"lvl": v, "side": d}) };
                }
                let claims = json!({"iss": "https://issuer.example", "exp": now() + 100000, "chain": v});
                let strategy = match (c + i) % 3 { 0 => Strategy::All, 1 => Strategy::Top, _ => Strategy::None };
                let a = IssueArgs { claims, strategy, holder: gen_holder_key(&mut r), decoy: r.chance(1, 2), fmt: if r.chance(1, 2) { Fmt::Compact } else { Fmt::Json }, key, alg: alg.clone(), queue: None };
                calls.push(ICall { args: a, class: if failing { "reserved_name" } else { "ok" }.to_string() });
            }
            issuer_hs.push(IssuerHistory { key, alg, calls });
            ctx.count("issuer_history.deep_failures_then_success");
        }
    }
    if replay.is_none() {
        wide_issuer_history(ctx);
        set_patience(0);
    }
    let mut reqs = vec![];
    let mut iruns = vec![];
    for h in &issuer_hs {
        ctx.evaluations += 1;
        iruns.push(run_issuer_history(ctx, h, &mut reqs));
    }
    let mut hruns = vec![];
    for h in &holder_hs {
        ctx.evaluations += 1;
        hruns.push(run_holder_history(ctx, h, &mut reqs));
    }
    let resp = run_model(&reqs);
    for (h, run) in issuer_hs.iter().zip(&iruns) {
        if let Some(run) = run {
            judge_issuer_history(ctx, h, run, &resp);
        }
    }
    for (h, run) in holder_hs.iter().zip(&hruns) {
        if let Some(run) = run {
            judge_holder_history(ctx, h, run);
        }
    }
    // the comparison with the model after the property's own rule (the record of violations is
    // bounded; a property failure must not be crowded out by model disagreements)
    for (h, run) in issuer_hs.iter().zip(&iruns) {
        if let Some(run) = run {
            compare_issuer_history(ctx, h, run, &resp);
        }
    }
    for (h, run) in holder_hs.iter().zip(&hruns) {
        if let Some(run) = run {
            compare_holder_history(ctx, h, run, &resp);
        }
    }
    if let Some(h) = issuer_hs.iter().find(|h| h.calls.len() >= 2 && h.calls.len() <= 3) {
        ctx.sample(json!({"history": h.json()}));
    }
    if let Some(h) = holder_hs.iter().find(|h| h.calls.len() >= 2 && h.calls.len() <= 3) {
        ctx.sample(json!({"history": h.json()}));
    }
}

/// ONE issuer instance issuing credentials with hundreds of disclosures each (several thousand salt draws in all): nothing of an
/// earlier result — salt, disclosure, digest — appears in a later one, and each result verifies to its own claims. Judged on the
/// implementation alone (the extracted model is quadratic in the number of disclosures).
fn wide_issuer_history(ctx: &mut Ctx) {
    set_patience(240);
    let (per, times) = if ctx.tier == Tier::Quick { (260usize, 8usize) } else { (700, 8) };
    let mut r = ctx.rng.fork(0x3_0000_0000);
    let mut claims = gen_wide_claims(&mut r, per, now());
    // ... with a hundred and fifty small objects (each takes decoys when they are on) and a large string value
    if let Some(m) = claims.as_object_mut() {
        m.insert("records".into(), Value::Array((0..150).map(|i| json!({"id": i, "tag": {"t": i % 5}})).collect()));
        m.insert("portrait".into(), json!("Zm9v".repeat(3100)));
    }
    let mk = |decoy: bool, fmt: Fmt| IssueArgs { claims: claims.clone(), strategy: Strategy::All, holder: None, decoy, fmt, key: KeyId::Hmac1, alg: Some("HS256".into()), queue: None };
    let calls: Vec<IssueArgs> = (0..times).map(|k| mk(k % 2 == 1, if k % 3 == 0 { Fmt::Json } else { Fmt::Compact })).collect();
    let case = json!({"wide_issuer_history": {"members": per, "calls_on_one_instance": times, "strategy": "all", "the same claims every time": true}});
    let seq = match issue_sequence(KeyId::Hmac1, Some("HS256".into()), calls.clone()) {
        Some(s) => s,
        None => return,
    };
    ctx.impl_calls += times;
    ctx.evaluations += 1;
    let mut salts: HashMap<String, usize> = HashMap::new();
    let mut texts: HashMap<String, usize> = HashMap::new();
    let mut digs: HashMap<String, usize> = HashMap::new();
    for (k, (a, res)) in calls.iter().zip(&seq).enumerate() {
        ctx.oracle_checks += 1;
        let parts = match res.out.ok().and_then(|s| split(a.fmt, s)) {
            Some(p) => p,
            None => {
                ctx.violation("oracle", "issue", &format!("call {} of a wide history on one issuer did not return an SD-JWT", k), case.clone(), res.out.describe(), json!("Ok"));
                return;
            }
        };
        let mut problems = vec![];
        for d in &parts.disclosures {
            if let Some(j) = texts.insert(d.clone(), k) {
                problems.push(format!("call {}: a disclosure of call {} appears again", k, j));
            }
            if let Some(Value::Array(arr)) = decode_disclosure(d) {
                if let Some(s) = arr.first().and_then(Value::as_str) {
                    if let Some(j) = salts.insert(s.to_string(), k) {
                        problems.push(format!("call {}: the salt {:?} of call {} is used again", k, s, j));
                    }
                }
            }
        }
        for d in all_digests(&parts) {
            if let Some(j) = digs.insert(d.clone(), k) {
                problems.push(format!("call {}: the digest {} of call {} appears again", k, d, j));
            }
        }
        // decoys as asked for by THIS call: every object carries one when on, none when off
        {
            let real: HashSet<String> = parts.disclosures.iter().map(|d| hash(d)).collect();
            fn images(v: &Value, out: &mut Vec<Vec<String>>) {
                match v {
                    Value::Object(m) => {
                        if m.len() == 1 && m.get("...").map_or(false, Value::is_string) {
                            return;
                        }
                        out.push(m.get("_sd").and_then(Value::as_array).map(|a| a.iter().filter_map(|d| d.as_str().map(String::from)).collect()).unwrap_or_default());
                        for (k, x) in m {
                            if k != "_sd" {
                                images(x, out);
                            }
                        }
                    }
                    Value::Array(a) => a.iter().for_each(|x| images(x, out)),
                    _ => {}
                }
            }
            let mut imgs = vec![];
            if let Some(pl) = parts.payload() {
                images(&pl, &mut imgs);
            }
            for d in &parts.disclosures {
                if let Some(Value::Array(arr)) = decode_disclosure(d) {
                    if let Some(v) = arr.last() {
                        images(v, &mut imgs);
                    }
                }
            }
            let with_decoy = imgs.iter().filter(|l| l.iter().any(|d| !real.contains(d))).count();
            if a.decoy && with_decoy != imgs.len() {
                problems.push(format!("call {}: decoys requested, yet {} of {} objects carry none (a fresh issuer gives every object its decoys)", k, imgs.len() - with_decoy, imgs.len()));
            }
            if !a.decoy && with_decoy != 0 {
                problems.push(format!("call {}: no decoys requested, yet {} objects carry digests that match no disclosure", k, with_decoy));
            }
        }
        let v = verify(&VerifyArgs { input: res.out.ok().cloned().unwrap_or_default(), fmt: a.fmt, resolver: Resolver::always(a.key), aud: None, nonce: None });
        ctx.impl_calls += 1;
        match &v.out {
            Outcome::Ok(c) if *c == claims => {}
            other => problems.push(format!("call {}: the issued SD-JWT does not verify to the call's own claims ({})", k, other.class())),
        }
        if !problems.is_empty() {
            ctx.violation("oracle", "issue", &problems[0].clone(), case.clone(), json!({"problems": problems.iter().take(5).collect::<Vec<_>>(), "count": problems.len()}), json!("fresh salts, disclosures and digests in every call"));
            return;
        }
    }
    ctx.count_n("wide_issuer_history.salts", salts.len());
    ctx.nontrivial(&case);
}

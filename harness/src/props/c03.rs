//! C03 — presented disclosures cannot add, alter or relocate claims.
//!
//! Every case is a hand-assembled presentation `jwt ~ L ~` (or its JSON form) over a genuine
//! issuer-signed JWT.  The expectation is computed from the list alone: the positions whose
//! genuine disclosure text (exact string equality) is in L, handed to the specification's `view`
//! (which applies the ancestor closure itself).

use crate::attack::*;
use crate::ctx::*;
use crate::flow::*;
use crate::gen::*;
use crate::imp::*;
use crate::keys::*;
use crate::model::run_model;
use crate::props::c05::{hidden_set, locate, spec_annotate_request};
use crate::rng::Rng;
use crate::tok::*;
use serde_json::{json, Value};
use std::collections::{BTreeMap, HashSet};

/// an issued credential read structurally: which disclosure text sits at which hidden position
pub struct Cred {
    pub args: IssueArgs,
    pub parts: Parts,
    /// the same claims issued a second time (other salts)
    pub second: Option<Parts>,
    pub hidden: HashSet<Pos>,
    pub at: BTreeMap<Pos, String>,
}

const MAX_DISCLOSURES: usize = 40;

pub fn cfg(tier: Tier) -> FlowCfg {
    FlowCfg {
        tree: TreeCfg { max_depth: if tier == Tier::Quick { 4 } else { 5 }, max_fanout: 4, path_safe_names: false, plain: false },
        allow_custom: true,
        allow_kb: false,
        sel_density: 4,
    }
}

/// issues `n` generated claim sets twice each on the real crate and locates every genuine disclosure
pub fn issue_creds(ctx: &mut Ctx, n: usize, tag: u64) -> Vec<Cred> {
    let cfg = cfg(ctx.tier);
    let mut pending = vec![];
    let mut reqs = vec![];
    let specials = special_flows(&mut ctx.rng.fork(tag + 9_999_991), ctx.tier);
    // after the n generated credentials: EVERY fixed claim set under its Custom strategy (and every third under AllLevels), to be
    // given a handful of lists each
    let lite: Vec<Flow> = specials.iter().filter(|f| !f.sel.is_empty() && depth_of(&f.issue.claims) < 12).enumerate()
        .filter(|(k, f)| matches!(f.issue.strategy, Strategy::Custom(_)) || (matches!(f.issue.strategy, Strategy::All) && k % 3 == 0)).map(|(_, f)| f.clone()).collect();
    let mut lite = lite;
    {
        // values of 6 to 30 KB (a disclosure text longer than any "reasonable" bound)
        let claims = json!({"iss": "https://issuer.example", "exp": now() + 100000, "portrait": "P".repeat(6300), "doc": {"scan": "S".repeat(700), "page": 1}, "small": "s", "list": ["L".repeat(6200), "x"]});
        for st in [Strategy::Top, Strategy::All] {
            lite.push(Flow { issue: IssueArgs { claims: claims.clone(), strategy: st, holder: None, decoy: false, fmt: Fmt::Compact, key: KeyId::IssuerEc, alg: None, queue: None }, sel: select_all(&claims).as_object().cloned().unwrap_or_default(), kb: None });
        }
    }
    for i in 0..n + lite.len() {
        let mut r = ctx.rng.fork(tag + i as u64);
        let mut f = if i >= n { lite[i - n].clone() } else { gen_flow(&mut r, &cfg) };
        if i >= n {
            ctx.count("credential.fixed_claim_set(few lists)");
        }
        if i < n && i % 6 == 5 && !specials.is_empty() {
            // names that look like syntax, a user-supplied cnf, deep chains (rotating with the seed)
            f = specials[(i / 6 + ctx.seed as usize) % specials.len()].clone();
            if i == 5 {
                // always among them: a user-supplied top-level cnf object with selectively disclosable members inside
                if let Some(c) = specials.iter().find(|x| x.issue.claims.get("cnf").is_some() && matches!(x.issue.strategy, Strategy::Custom(_))) {
                    f = c.clone();
                }
            }
            ctx.count("credential.special_claim_set");
        }
        // a credential without any hidden claim exercises only the forged / garbage classes: keep a few
        let mut tries = 0;
        while matches!(f.issue.strategy, Strategy::None) && tries < 4 && r.chance(9, 10) {
            f = gen_flow(&mut r, &cfg);
            tries += 1;
        }
        let a = f.issue;
        let first = issue(&a);
        // the cost of a list on the model grows with the number of disclosures; very large credentials add nothing here
        if first.out.ok().and_then(|s| split(a.fmt, s)).map(|p| p.disclosures.len() > MAX_DISCLOSURES).unwrap_or(false) {
            ctx.impl_calls += 1;
            ctx.count("credential.more_than_40_disclosures(not used)");
            continue;
        }
        let second = issue(&a);
        ctx.impl_calls += 2;
        let parts = match first.out.ok().and_then(|s| split(a.fmt, s)) {
            Some(p) => p,
            None => {
                ctx.count("issuance_failed(skipped; C05 judges issuance)");
                continue;
            }
        };
        let second = second.out.ok().and_then(|s| split(a.fmt, s));
        reqs.push(spec_annotate_request(reqs.len(), &a.claims, &a.strategy));
        pending.push((a, parts, second));
    }
    let resp = run_model(&reqs);
    let mut out = vec![];
    for ((a, parts, second), spec) in pending.into_iter().zip(resp.iter()) {
        if spec.get("hidden").is_none() {
            ctx.skip_model("spec-annotate-missing");
            continue;
        }
        let hidden = hidden_set(spec);
        let loc = locate(&a.claims, &hidden, &parts, a.holder);
        if !loc.problems.is_empty() {
            ctx.count("issued_structure_unreadable(skipped; C05 judges it)");
            continue;
        }
        out.push(Cred { args: a, parts, second, hidden, at: loc.at });
        if out.len() > n {
            // (position beyond the generated ones: a fixed claim set)
        }
    }
    out
}

fn shuffle<T>(r: &mut Rng, v: &mut Vec<T>) {
    for i in (1..v.len()).rev() {
        let j = r.below(i + 1);
        v.swap(i, j);
    }
}

fn insert_random(r: &mut Rng, v: &mut Vec<String>, s: String) {
    let at = r.below(v.len() + 1);
    v.insert(at, s);
}

fn hidden_ancestors(p: &Pos, hidden: &HashSet<Pos>) -> Vec<Pos> {
    (1..p.len()).map(|n| p[..n].to_vec()).filter(|a| hidden.contains(a)).collect()
}

/// a random set of hidden positions closed under hidden ancestors
fn closed_subset(r: &mut Rng, c: &Cred, density: usize) -> Vec<Pos> {
    let mut set: HashSet<Pos> = HashSet::new();
    for p in c.at.keys() {
        if r.chance(density, 6) {
            for a in hidden_ancestors(p, &c.hidden) {
                set.insert(a);
            }
            set.insert(p.clone());
        }
    }
    let mut v: Vec<Pos> = set.into_iter().collect();
    v.sort();
    v
}

fn texts(c: &Cred, ps: &[Pos]) -> Vec<String> {
    ps.iter().filter_map(|p| c.at.get(p).cloned()).collect()
}

/// JSON text of `v` with every ASCII character of every string (member names included) written as \u00XX
fn escaped_text(v: &Value, out: &mut String) {
    fn string(s: &str, out: &mut String) {
        out.push('"');
        for ch in s.chars() {
            if (ch as u32) < 0x80 {
                out.push_str(&format!("\\u{:04x}", ch as u32));
            } else {
                out.push(ch);
            }
        }
        out.push('"');
    }
    match v {
        Value::String(s) => string(s, out),
        Value::Array(a) => {
            out.push('[');
            for (i, x) in a.iter().enumerate() {
                if i > 0 {
                    out.push(',');
                }
                escaped_text(x, out);
            }
            out.push(']');
        }
        Value::Object(m) => {
            out.push('{');
            for (i, (k, x)) in m.iter().enumerate() {
                if i > 0 {
                    out.push(',');
                }
                string(k, out);
                out.push(':');
                escaped_text(x, out);
            }
            out.push('}');
        }
        other => out.push_str(&serde_json::to_string(other).unwrap()),
    }
}

fn other_value(r: &mut Rng, v: &Value) -> Value {
    let cands = [json!("altered"), json!(true), json!(0), json!({"admin": true}), json!(["x"]), Value::Null];
    loop {
        let c = r.pick(&cands).clone();
        if c != *v {
            return c;
        }
    }
}

/// variants of one genuine disclosure that are NOT that disclosure: (class, text)
fn altered(r: &mut Rng, d: &str) -> Vec<(&'static str, String)> {
    let mut out = vec![];
    if let Some(Value::Array(arr)) = decode_disclosure(d) {
        let n = arr.len();
        if n == 2 || n == 3 {
            let mut a = arr.clone();
            a[0] = json!(format!("{}x", arr[0].as_str().unwrap_or("")));
            out.push(("altered-salt", b64_json(&Value::Array(a))));
            let mut a = arr.clone();
            a[0] = json!(b64(&r.next().to_le_bytes()));
            out.push(("altered-salt", b64_json(&Value::Array(a))));
            if n == 3 {
                let mut a = arr.clone();
                a[1] = json!(match r.below(4) {
                    0 => "iss".to_string(),
                    1 => "exp".to_string(),
                    2 => "admin".to_string(),
                    _ => format!("{}_", arr[1].as_str().unwrap_or("")),
                });
                out.push(("altered-name", b64_json(&Value::Array(a))));
            }
            let mut a = arr.clone();
            a[n - 1] = other_value(r, &arr[n - 1]);
            out.push(("altered-value", b64_json(&Value::Array(a))));
            // a 3-element disclosure offered as an array element and vice versa
            let a: Vec<Value> = if n == 3 { vec![arr[0].clone(), arr[2].clone()] } else { vec![arr[0].clone(), json!("moved"), arr[1].clone()] };
            out.push(("altered-arity", b64_json(&Value::Array(a))));
        }
        // the same JSON value in another spelling
        let v = Value::Array(arr);
        out.push(("reserialized-compact", b64(serde_json::to_string(&v).unwrap().as_bytes())));
        out.push(("reserialized-pretty", b64(serde_json::to_string_pretty(&v).unwrap().as_bytes())));
        let mut t = String::new();
        escaped_text(&v, &mut t);
        out.push(("reserialized-escaped-all", b64(t.as_bytes())));
    }
    if let Some(text) = unb64(d).and_then(|b| String::from_utf8(b).ok()) {
        // one character of the salt written as an escape
        let b = text.as_bytes();
        if b.len() > 3 && &b[..2] == b"[\"" && b[2].is_ascii_alphanumeric() {
            out.push(("reserialized-escaped-one", b64(format!("[\"\\u{:04x}{}", b[2] as u32, &text[3..]).as_bytes())));
        }
        out.push(("reserialized-spaced", b64(format!(" {}\n", text).as_bytes())));
    }
    out.push(("repadded", format!("{}=", d)));
    out.push(("repadded", format!("{}==", d)));
    // the genuine text with a line break, blank or tab spliced in (a token that was wrapped, copied from a mail ...): it is not the
    // text the digest was computed over
    {
        let mid = d.len() / 2;
        let brk = *r.pick(&["\r", "\n", "\r\n", " ", "\t", "\u{a0}", "\u{200b}"]);
        out.push(("respelled-with-break", format!("{}{}", brk, d)));
        out.push(("respelled-with-break", format!("{}{}", d, brk)));
        out.push(("respelled-with-break", format!("{}{}{}", &d[..mid], brk, &d[mid..])));
        out.push(("respelled-with-break", format!("{}\n{}", &d[..d.len().min(7)], &d[d.len().min(7)..])));
    }
    if d.len() > 4 {
        out.push(("truncated", d[..d.len() - r.range(1, 3)].to_string()));
        out.push(("truncated", d[1..].to_string()));
        out.push(("truncated", d[..d.len() / 2].to_string()));
    }
    out.retain(|(_, t)| t != d && !t.contains('~'));
    out
}

/// forged disclosures naming visible claims, hidden claims or new ones
fn forged(r: &mut Rng, c: &Cred) -> Vec<(&'static str, String)> {
    let salt = b64(&r.next().to_le_bytes());
    let mut out = vec![
        ("forged-iss", b64_json(&json!([salt, "iss", "https://evil.example"]))),
        ("forged-exp", b64_json(&json!([salt, "exp", 1]))),
        ("forged-cnf", b64_json(&json!([salt, "cnf", {"jwk": KeyId::HolderEd.jwk_json().unwrap()}]))),
        ("forged-new-name", b64_json(&json!([salt, "admin", true]))),
        ("forged-new-name", b64_json(&json!([salt, "", {"nested": [1, 2]}]))),
        ("forged-sd-alg", b64_json(&json!([salt, "_sd_alg", "md5"]))),
        ("forged-2-element", b64_json(&json!([salt, "an extra array element"]))),
        ("forged-2-element", b64_json(&json!([salt, {"admin": true}]))),
    ];
    // an existing visible member of the signed payload
    if let Some(Value::Object(pl)) = c.parts.payload() {
        let names: Vec<&String> = pl.keys().filter(|k| !["_sd", "_sd_alg", "iss", "exp", "cnf"].contains(&k.as_str())).collect();
        if !names.is_empty() {
            let k = *r.pick(&names);
            out.push(("forged-visible-member", b64_json(&json!([salt, k, other_value(r, &pl[k.as_str()])]))));
        }
    }
    // the name of a hidden member, with another value
    let hidden_names: Vec<&Pos> = c.at.keys().filter(|p| matches!(p.last(), Some(Step::Key(_)))).collect();
    if !hidden_names.is_empty() {
        if let Some(Step::Key(k)) = r.pick(&hidden_names).last() {
            out.push(("forged-hidden-name", b64_json(&json!([salt, k, "forged value"]))));
        }
    }
    // relocation attempt: a new claim whose value lists the digest of a genuine disclosure
    let ds: Vec<&String> = c.at.values().collect();
    if !ds.is_empty() {
        let d = *r.pick(&ds);
        out.push(("forged-relocation", b64_json(&json!([salt, "moved", {"_sd": [hash(d)]}]))));
        out.push(("forged-relocation", b64_json(&json!([salt, [{"...": hash(d)}]]))));
    }
    out
}

fn garbage(r: &mut Rng) -> (&'static str, String) {
    let nonb64 = ["!!!", "not base64", "%%%", "a", "A", "=", "ÿ", "e30=", "W10.", " ", "\"", "\\u0000", "{}", "Zm9v\n"];
    let nonjson = ["not json", "{", "[1,2", "[\"s\",\"n\",", "\u{0}", "['s','n','v']", "[\"s\",\"n\",\"v\"] trailing", ""];
    let odd_json = ["{\"a\":1}", "\"str\"", "7", "null", "[]", "[\"only-salt\"]", "[\"s\",\"n\",\"v\",\"extra\"]", "[\"s\",\"n\",\"v\",\"e\",\"f\"]", "[1,2,3]", "[\"s\",7,\"v\"]", "[[\"s\",\"n\",\"v\"]]"];
    match r.below(5) {
        4 => {
            // a disclosure text cut at a byte offset (inside a string, inside a multi-byte character); and the empty array in spellings
            let text = "[\"c2FsdC10cnVuYw\",\"n\u{e9}\u{20ac}me\",{\"v\":\"\u{1f600}\u{4e2d}\u{e9} text\",\"w\":[\"\u{20ac}\u{20ac}\",1]}]";
            match r.below(4) {
                0 => ("garbage-empty-array", b64(r.pick(&["[]", "[ ]", "[  ]", "\n[\n]\n", "[[]]", "[null]", "[\"\"]"]).as_bytes())),
                _ => ("garbage-cut-at-a-byte-offset", b64(&text.as_bytes()[..r.range(1, text.len())])),
            }
        }
        3 => {
            // long and full of multi-byte characters (raw, or as the content of base64url text that is not a disclosure)
            let f = r.pick(&multibyte_fillers()).clone();
            let cut: String = f.chars().take(r.range(60, 1400)).collect();
            match r.below(3) {
                0 => ("garbage-long-multibyte", cut),
                1 => ("garbage-long-multibyte", b64(cut.as_bytes())),
                _ => ("garbage-long-multibyte", b64(format!("[\"s\",\"n\",\"{}\",\"extra\"]", cut).as_bytes())),
            }
        }
        0 => ("garbage-non-base64", r.pick(&nonb64).to_string()),
        1 => ("garbage-non-json", b64(r.pick(&nonjson).as_bytes())),
        _ => ("garbage-odd-json", b64(r.pick(&odd_json).as_bytes())),
    }
}

pub const CLASSES: [&str; 16] = [
    "subset", "altered-replacing", "all", "altered-beside", "child-without-parent", "forged", "altered-replacing", "foreign", "duplicate", "altered-beside", "garbage", "forged-alone",
    "foreign-mixed", "mixed", "none", "garbage-alone",
];

/// one disclosure list of the given class: (class label, list)
fn gen_list(r: &mut Rng, c: &Cred, class: &str) -> (String, Vec<String>) {
    let all: Vec<Pos> = c.at.keys().cloned().collect();
    let density = r.range(1, 5);
    let mut base = texts(c, &closed_subset(r, c, density));
    shuffle(r, &mut base);
    match class {
        "subset" => ("subset".into(), base),
        "all" => {
            let mut l = texts(c, &all);
            if r.chance(1, 2) {
                shuffle(r, &mut l);
            }
            ("all".into(), l)
        }
        "none" => ("none".into(), vec![]),
        "child-without-parent" => {
            // positions with a hidden ancestor, presented without (one of) their ancestors
            let deep: Vec<&Pos> = all.iter().filter(|p| !hidden_ancestors(p, &c.hidden).is_empty()).collect();
            if deep.is_empty() {
                // no nesting here: an arbitrary (not closed) subset instead
                let mut l: Vec<String> = c.at.values().filter(|_| r.chance(1, 2)).cloned().collect();
                shuffle(r, &mut l);
                return ("subset".into(), l);
            }
            let p = (*r.pick(&deep)).clone();
            let anc = hidden_ancestors(&p, &c.hidden);
            let drop = r.pick(&anc).clone();
            let drop_text = c.at.get(&drop).cloned().unwrap_or_default();
            let mut l: Vec<String> = base.into_iter().filter(|d| *d != drop_text).collect();
            let pt = c.at[&p].clone();
            if !l.contains(&pt) {
                insert_random(r, &mut l, pt);
            }
            ("child-without-parent".into(), l)
        }
        "altered-replacing" | "altered-beside" => {
            if all.is_empty() {
                return gen_list(r, c, "forged-alone");
            }
            let p = r.pick(&all).clone();
            let d = c.at[&p].clone();
            // make sure the disclosure and its ancestors are in the base list
            let mut need = hidden_ancestors(&p, &c.hidden);
            need.push(p);
            for t in texts(c, &need) {
                if !base.contains(&t) {
                    insert_random(r, &mut base, t);
                }
            }
            let vs = altered(r, &d);
            if vs.is_empty() {
                return ("subset".into(), base);
            }
            let (label, t) = r.pick(&vs).clone();
            if class == "altered-replacing" {
                for x in base.iter_mut() {
                    if *x == d {
                        *x = t.clone();
                    }
                }
                (format!("{}-replacing", label), base)
            } else {
                insert_random(r, &mut base, t);
                (format!("{}-beside", label), base)
            }
        }
        "forged" | "forged-alone" => {
            let fs = forged(r, c);
            let k = r.range(1, 3);
            let mut l = if class == "forged" { base } else { vec![] };
            let mut label = "forged".to_string();
            for _ in 0..k {
                let (lb, t) = r.pick(&fs).clone();
                if !l.contains(&t) {
                    insert_random(r, &mut l, t);
                    label = lb.to_string();
                }
            }
            (label, l)
        }
        "foreign" | "foreign-mixed" => {
            let sec: Vec<String> = c.second.as_ref().map(|p| p.disclosures.clone()).unwrap_or_default();
            let mut l: Vec<String> = if class == "foreign" { vec![] } else { base };
            let take_all = r.chance(1, 3);
            for d in sec {
                if (take_all || r.chance(1, 2)) && !l.contains(&d) {
                    insert_random(r, &mut l, d);
                }
            }
            (if class == "foreign" { "foreign-second-credential".into() } else { "foreign-mixed-with-genuine".into() }, l)
        }
        "duplicate" => {
            if base.is_empty() {
                base = texts(c, &all);
            }
            if base.is_empty() {
                return ("none".into(), vec![]);
            }
            let d = r.pick(&base).clone();
            if r.chance(1, 2) {
                insert_random(r, &mut base, d);
            } else {
                base.push(d);
            }
            ("duplicate".into(), base)
        }
        "garbage" | "garbage-alone" => {
            let (label, g) = garbage(r);
            let mut l = if class == "garbage" { base } else { vec![] };
            insert_random(r, &mut l, g);
            (label.into(), l)
        }
        _ => {
            // several kinds at once
            let mut l = base;
            if let Some(p) = all.first() {
                let vs = altered(r, &c.at[p]);
                if !vs.is_empty() {
                    let t = r.pick(&vs).1.clone();
                    insert_random(r, &mut l, t);
                }
            }
            let fs = forged(r, c);
            let t = r.pick(&fs).1.clone();
            insert_random(r, &mut l, t);
            if let Some(sec) = &c.second {
                if !sec.disclosures.is_empty() {
                    let t = r.pick(&sec.disclosures).clone();
                    insert_random(r, &mut l, t);
                }
            }
            let mut seen = HashSet::new();
            l.retain(|d| seen.insert(d.clone()));
            ("mixed".into(), l)
        }
    }
}

/// the expectation of a list, computed from the list alone
pub fn expectation(c: &Cred, l: &[String]) -> (Expect, bool) {
    let in_list: HashSet<&String> = l.iter().collect();
    let shown: HashSet<Pos> = c.at.iter().filter(|(_, d)| in_list.contains(d)).map(|(p, _)| p.clone()).collect();
    let mut shown_sorted: Vec<&Pos> = shown.iter().collect();
    shown_sorted.sort();
    let req = json!({"id": 0, "op": "spec_view", "claims": c.args.claims, "strategy": c.args.strategy.json(),
                     "shown": shown_sorted.iter().map(|p| pos_json(p)).collect::<Vec<_>>()});
    let genuine: HashSet<&String> = c.at.values().collect();
    let pure = l.iter().all(|d| genuine.contains(d)) && in_list.len() == l.len();
    let closed = shown.iter().all(|p| hidden_ancestors(p, &c.hidden).iter().all(|a| shown.contains(a)));
    if pure && closed {
        (Expect::AcceptSpec(req, c.args.holder), true)
    } else {
        (Expect::RejectOrSpec(req, c.args.holder), false)
    }
}

pub fn list_attack(c: &Cred, label: &str, l: Vec<String>, fmt: Fmt) -> Attack {
    let (expect, honest) = expectation(c, &l);
    let n = l.len();
    let input = Parts { jwt: c.parts.jwt.clone(), disclosures: l, kb: None }.render(fmt);
    Attack {
        name: format!("{}{}: {} disclosures, {}", label, if honest { "(honest)" } else { "" }, n, fmt.name()),
        args: VerifyArgs { input, fmt, resolver: Resolver::always(c.args.key), aud: None, nonce: None },
        expect,
        origin: json!({"class": label, "issued_fmt": c.args.fmt.name(), "hidden": c.at.len(), "holder": c.args.holder.map(|k| k.id())}),
        nontrivial: true,
    }
}

/// `per_cred` hand-assembled presentations per credential, every class in turn
pub fn lists_for(r: &mut Rng, c: &Cred, per_cred: usize) -> Vec<Attack> {
    let mut out = vec![];
    let start = r.below(CLASSES.len());
    let few = ["all", "subset", "mixed", "altered-beside", "forged"];
    for k in 0..per_cred {
        let class = if per_cred == few.len() { few[k] } else { CLASSES[(start + k) % CLASSES.len()] };
        let (label, l) = gen_list(r, c, class);
        if l.iter().any(|d| d.contains('~')) {
            continue;
        }
        let fmt = if r.chance(1, 2) { Fmt::Compact } else { Fmt::Json };
        out.push(list_attack(c, &label, l, fmt));
    }
    // shapes only one serialization can express
    let genuine: Vec<String> = c.parts.disclosures.clone();
    if genuine.len() >= 2 {
        // JSON: ONE list entry that is two genuine disclosures joined by the compact separator (and entries with the separator at
        // an end): such an entry is no disclosure; nothing it is made of may be disclosed by it
        let i = r.below(genuine.len());
        let mut j = r.below(genuine.len());
        if j == i {
            j = (i + 1) % genuine.len();
        }
        for (label, entry) in [("joined-by-separator", format!("{}~{}", genuine[i], genuine[j])), ("separator-appended", format!("{}~", genuine[i])), ("separator-prepended", format!("~{}", genuine[j]))] {
            let rest: Vec<String> = genuine.iter().enumerate().filter(|(k, _)| *k != i && *k != j).map(|(_, d)| d.clone()).collect();
            let mut l = rest.clone();
            l.insert(r.below(l.len() + 1), entry);
            out.push(list_attack(c, &format!("json-entry-{}", label), l, Fmt::Json));
        }
        // Compact: no "~" after the last disclosure, so that it sits where a key-binding JWT would (none is asked for): it is
        // not one of the presented disclosures
        let k = r.range(1, genuine.len());
        let shown: Vec<String> = genuine[..k].to_vec();
        let mut a = list_attack(c, "compact-last-disclosure-in-the-key-binding-position", shown[..k - 1].to_vec(), Fmt::Compact);
        a.args.input = format!("{}~{}", c.parts.jwt, shown.join("~"));
        a.name = format!("compact-last-disclosure-in-the-key-binding-position: {} disclosures, compact", k);
        out.push(a);
    }
    out
}

/// the C03 case stream (also used by C10): `n` credentials x `per_cred` lists
pub fn build_lists(ctx: &mut Ctx, n: usize, per_cred: usize, tag: u64) -> Vec<Attack> {
    let creds = issue_creds(ctx, n, tag);
    let mut out = vec![];
    for (k, c) in creds.iter().enumerate() {
        let mut r = ctx.rng.fork(tag + 500_000 + k as u64);
        ctx.count(&format!("credential.hidden.{}", match c.at.len() { 0 => "0", 1..=3 => "1-3", 4..=10 => "4-10", _ => "10+" }));
        ctx.count(&format!("credential.holder_key.{}", c.args.holder.is_some()));
        if c.at.keys().any(|p| !hidden_ancestors(p, &c.hidden).is_empty()) {
            ctx.count("credential.with_nested_hidden_claims");
        }
        out.extend(lists_for(&mut r, c, if k < n { per_cred } else { 5 }));
    }
    out
}

pub fn run(ctx: &mut Ctx, replay: Option<&str>) {
    ctx.rule = "issued SD-JWTs (claims x strategy x decoys x holder key, as C01 without key binding; each claim set issued twice) x hand-assembled disclosure lists in both formats: \
                subsets and permutations of the genuine disclosures (closed under hidden ancestors: must be accepted with exactly the specification's view; children without parents), \
                genuine disclosures with salt / name / value / arity changed, re-serialized (compact, pretty, \\u00XX escapes, outer whitespace), re-padded, truncated (replacing the genuine one or beside it), \
                forged 2-/3-element disclosures naming iss / exp / cnf / _sd_alg / visible members / hidden names / new names / relocating a genuine digest, disclosures of the second credential, duplicates, \
                non-base64 / non-JSON / odd-arity strings; oracle: Err, or exactly view(positions whose genuine text is in the list); non-trivial = every list (distinct by input text)".into();
    if let Some(path) = replay {
        match attack_from_replay(path) {
            Some(a) => run_attacks(ctx, &[a]),
            None => ctx.notes.push("replay file holds no verifier case".into()),
        }
        return;
    }
    let n = ctx.tier.pick(44, 1000);
    let per = ctx.tier.pick(32, 40);
    let attacks = build_lists(ctx, n, per, 0);
    for chunk in attacks.chunks(4000) {
        let outs = run_attacks_out(ctx, chunk);
        for (a, o) in chunk.iter().zip(&outs) {
            let class = a.name.split(':').next().unwrap_or("");
            ctx.count(&format!("list.{}.{}", class, match o { Outcome::Ok(_) => "accepted", Outcome::Err(_) => "rejected", _ => "panic-or-timeout" }));
            ctx.count(&format!("fmt.{}", a.args.fmt.name()));
        }
    }
    // very long lists: thousands of well-formed disclosures that nothing references, before / after / around the genuine ones.
    // The returned claims must be those of the genuine disclosures alone (that shorter list is judged against the model and
    // the specification above; the extracted model is quadratic in the list length, so the long one is judged relative to it)
    {
        set_patience(240);
        let lens: Vec<usize> = if ctx.tier == Tier::Quick { vec![1100, 4200, 9000] } else { vec![300, 1100, 2100, 4090, 4100, 4200, 8200, 9000, 17000, 70000] };
        for (li, n) in lens.into_iter().enumerate() {
            let mut r = ctx.rng.fork(7_000_000 + li as u64);
            let claims = gen_claims(&mut r, &TreeCfg { max_depth: 3, max_fanout: 4, path_safe_names: false, plain: false }, now());
            let fmt = if li % 2 == 0 { Fmt::Compact } else { Fmt::Json };
            let a = IssueArgs { claims: claims.clone(), strategy: Strategy::All, holder: None, decoy: li % 3 == 0, fmt, key: KeyId::IssuerEc, alg: None, queue: None };
            let issued = issue(&a);
            ctx.impl_calls += 1;
            let parts = match issued.out.ok().and_then(|s| split(fmt, s)) {
                Some(p) => p,
                None => continue,
            };
            let junk: Vec<String> = (0..n).map(|k| b64_json(&json!([format!("c2FsdC1qdW5r{}", k), format!("junk{}", k), k]))).collect();
            let short = VerifyArgs { input: parts.render(fmt), fmt, resolver: Resolver::always(a.key), aud: None, nonce: None };
            let want = verify(&short);
            ctx.impl_calls += 1;
            for (name, ds) in [
                ("junk-then-genuine", junk.iter().cloned().chain(parts.disclosures.iter().cloned()).collect::<Vec<_>>()),
                ("genuine-then-junk", parts.disclosures.iter().cloned().chain(junk.iter().cloned()).collect::<Vec<_>>()),
                ("genuine-in-the-middle", junk[..n / 2].iter().cloned().chain(parts.disclosures.iter().cloned()).chain(junk[n / 2..].iter().cloned()).collect::<Vec<_>>()),
            ] {
                for f2 in [Fmt::Compact, Fmt::Json] {
                    let long = VerifyArgs { input: Parts { jwt: parts.jwt.clone(), disclosures: ds.clone(), kb: None }.render(f2), ..short.clone() };
                    let long = VerifyArgs { fmt: f2, ..long };
                    let got = verify(&long);
                    ctx.impl_calls += 1;
                    ctx.evaluations += 1;
                    ctx.oracle_checks += 1;
                    ctx.count(&format!("list.long-{}.{}", name, f2.name()));
                    let case = json!({"long_list": {"unreferenced_disclosures": n, "shape": name, "fmt": f2.name(), "claims": claims, "genuine": parts.disclosures, "jwt": parts.jwt}});
                    let same = match (&want.out, &got.out) {
                        (Outcome::Ok(x), Outcome::Ok(y)) => x == y,
                        _ => false,
                    };
                    if same {
                        ctx.nontrivial(&case);
                    } else {
                        ctx.violation("oracle", "verify", "a long list of unreferenced disclosures around the genuine ones changes the result", case, got.out.describe(), want.out.describe());
                    }
                }
            }
        }
    }
    set_patience(0);
    for pick in ["altered-value-replacing", "forged-iss", "child-without-parent"] {
        if let Some(a) = attacks.iter().find(|a| a.name.starts_with(pick)) {
            ctx.sample(json!({"list": a.name, "input": a.args.input}));
        }
    }
}

//! One runner per property.

use crate::ctx::Ctx;

pub mod c01;
pub mod c02;
pub mod c09;
pub mod c05;
pub mod c06;
pub mod c12;
pub mod c13;
pub mod c15;
pub mod c11;
pub mod c10;
pub mod c08;
pub mod c07;
pub mod c04;
pub mod c03;
pub mod c14;
pub mod c16;

/// returns false when the property id is unknown
pub fn run(ctx: &mut Ctx, replay: Option<&str>) -> bool {
    match ctx.prop.clone().as_str() {
        "C01" => c01::run(ctx, replay),
        "C02" => c02::run(ctx, replay),
        "C09" => c09::run(ctx, replay),
        "C05" => c05::run(ctx, replay),
        "C06" => c06::run(ctx, replay),
        "C12" => c12::run(ctx, replay),
        "C13" => c13::run(ctx, replay),
        "C15" => c15::run(ctx, replay),
        "C11" => c11::run(ctx, replay),
        "C10" => c10::run(ctx, replay),
        "C08" => c08::run(ctx, replay),
        "C07" => c07::run(ctx, replay),
        "C04" => c04::run(ctx, replay),
        "C03" => c03::run(ctx, replay),
        "C14" => c14::run(ctx, replay),
        "C16" => c16::run(ctx, replay),
        _ => return false,
    }
    true
}

use crate::flow::{Flow, KbSetting};
use crate::imp::{Fmt, IssueArgs, Strategy};
use crate::keys::{KeyId, ALL_KEYS};
use serde_json::Value;

pub fn key_by_id(id: u64) -> Option<KeyId> {
    ALL_KEYS.iter().copied().find(|k| k.id() == id)
}

pub fn flow_of_json(v: &Value) -> Option<Flow> {
    let i = v.get("issue")?;
    let issue = IssueArgs {
        claims: i.get("claims")?.clone(),
        strategy: Strategy::from_json(i.get("strategy")?),
        holder: i.get("holder").and_then(Value::as_u64).and_then(key_by_id),
        decoy: i.get("decoy").and_then(Value::as_bool).unwrap_or(false),
        fmt: Fmt::from_name(i.get("fmt").and_then(Value::as_str).unwrap_or("compact")),
        key: i.get("key").and_then(Value::as_u64).and_then(key_by_id).unwrap_or(KeyId::IssuerEc),
        alg: i.get("alg").and_then(Value::as_str).map(String::from),
        queue: i.get("queue").and_then(Value::as_array).map(|a| a.iter().filter_map(|x| x.as_str().map(String::from)).collect()),
    };
    let kb = v.get("kb").filter(|k| !k.is_null()).and_then(|k| {
        Some(KbSetting {
            key: k.get("key").and_then(Value::as_u64).and_then(key_by_id)?,
            alg: k.get("alg").and_then(Value::as_str).map(String::from),
            nonce: k.get("nonce")?.as_str()?.to_string(),
            aud: k.get("aud")?.as_str()?.to_string(),
        })
    });
    Some(Flow { issue, sel: v.get("sel").and_then(Value::as_object).cloned().unwrap_or_default(), kb })
}

/// the flow stored in a replay file (case.flow or case itself)
pub fn flow_from_replay(path: &str) -> Option<Flow> {
    let v: Value = serde_json::from_str(&std::fs::read_to_string(path).ok()?).ok()?;
    let case = v.get("case")?;
    flow_of_json(case.get("flow").unwrap_or(case))
}

/// corpus: /verif/corpus/<prop>.jsonl, one flow per line; runs first in every tier
pub fn corpus_flows(prop: &str) -> Vec<Flow> {
    let dir = std::env::var("VERIF_CORPUS_DIR").unwrap_or_else(|_| "/verif/corpus".to_string());
    let mut out = vec![];
    if let Ok(text) = std::fs::read_to_string(format!("{}/{}.jsonl", dir, prop)) {
        for line in text.lines() {
            if let Ok(v) = serde_json::from_str::<Value>(line) {
                if let Some(f) = flow_of_json(&v) {
                    out.push(f);
                }
            }
        }
    }
    out
}

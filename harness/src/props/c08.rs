//! C08 — ill-formed issuer-signed structures are rejected as the specification requires.
//!
//! The harness is the issuer here: it builds payload / disclosure structures with its own small builder
//! (independent of the crate's issuer), applies one deviation (or two) of the property's quantifier, signs the
//! payload with the test issuer key through `jsonwebtoken` directly and presents it with arbitrary disclosure
//! strings.  The verdict comes from the extracted `spec_process` (coq/Spec/Draft07.v).

use crate::attack::*;
use crate::ctx::*;
use crate::gen::*;
use crate::imp::*;
use crate::keys::*;
use crate::rng::Rng;
use crate::tok::*;
use serde_json::{json, Map, Value};
use std::collections::HashSet;

// ---------------------------------------------------------------------------
// the builder: a claim tree whose members / elements carry a "hidden" mark

#[derive(Clone, Debug)]
pub enum Node {
    Leaf(Value),
    Obj(Vec<Mem>),
    Arr(Vec<El>),
}
#[derive(Clone, Debug)]
pub struct Mem {
    pub name: String,
    pub node: Node,
    pub hid: Option<usize>,
}
#[derive(Clone, Debug)]
pub struct El {
    pub node: Node,
    pub hid: Option<usize>,
}
#[derive(Clone, Debug)]
pub struct Tree {
    pub root: Node,
    /// salt of hidden node i
    pub salts: Vec<String>,
}

const ALWAYS_VISIBLE: [&str; 6] = ["iss", "exp", "iat", "nbf", "sub", "cnf"];

fn gen_salt(r: &mut Rng) -> String {
    let mut b = [0u8; 16];
    for x in b.iter_mut() {
        *x = (r.next() & 0xff) as u8;
    }
    b64(&b)
}

fn to_node(r: &mut Rng, v: &Value, density: usize, top: bool, salts: &mut Vec<String>) -> Node {
    match v {
        Value::Object(m) => Node::Obj(
            m.iter()
                .map(|(k, x)| {
                    let node = to_node(r, x, density, false, salts);
                    let hid = if (top && ALWAYS_VISIBLE.contains(&k.as_str())) || !r.chance(density, 5) {
                        None
                    } else {
                        salts.push(gen_salt(r));
                        Some(salts.len() - 1)
                    };
                    Mem { name: k.clone(), node, hid }
                })
                .collect(),
        ),
        Value::Array(a) => Node::Arr(
            a.iter()
                .map(|x| {
                    let node = to_node(r, x, density, false, salts);
                    let hid = if !r.chance(density, 5) {
                        None
                    } else {
                        salts.push(gen_salt(r));
                        Some(salts.len() - 1)
                    };
                    El { node, hid }
                })
                .collect(),
        ),
        other => Node::Leaf(other.clone()),
    }
}

pub fn tree_of_claims(r: &mut Rng, claims: &Value) -> Tree {
    let mut salts = vec![];
    let density = r.range(2, 4);
    let root = to_node(r, claims, density, true, &mut salts);
    Tree { root, salts }
}

/// what a verifier must return when exactly the disclosures of `present` are handed over (the generator's own view)
pub fn view(n: &Node, present: &HashSet<usize>) -> Value {
    match n {
        Node::Leaf(v) => v.clone(),
        Node::Obj(ms) => {
            let mut out = Map::new();
            for m in ms {
                if m.hid.map(|h| present.contains(&h)).unwrap_or(true) {
                    out.insert(m.name.clone(), view(&m.node, present));
                }
            }
            Value::Object(out)
        }
        Node::Arr(es) => Value::Array(es.iter().filter(|e| e.hid.map(|h| present.contains(&h)).unwrap_or(true)).map(|e| view(&e.node, present)).collect()),
    }
}

// ---------------------------------------------------------------------------
// deviations

#[derive(Clone, Debug)]
pub enum Src {
    Hidden(usize),
    Decoy(String),
}

#[derive(Clone, Debug)]
pub enum Dev {
    /// the disclosure of hidden node `hid` is rendered in another JSON shape (SHAPES[kind])
    Shape { hid: usize, kind: usize },
    /// the disclosed member name is replaced
    Rename { hid: usize, to: String },
    /// one more digest in container `cont`: an `_sd` entry when it is an object, a `{"...": d}` element when it is an array
    ExtraDigest { cont: usize, src: Src, at: usize },
    /// a non-string entry in the `_sd` list of object `cont`
    SdJunk { cont: usize, junk: Value, at: usize },
    /// `_sd` of object `cont` is not an array
    SdNotArray { cont: usize, variant: usize },
    /// the placeholder of hidden element `hid` is ill-formed
    Placeholder { hid: usize, variant: usize },
    /// top-level `_sd_alg` (None = absent)
    TopAlg(Option<Value>),
    /// a member `_sd_alg` inside the nested object `cont` (user data)
    NestedAlg { cont: usize, value: Value },
    /// the disclosure string of `hid` is not base64url / not JSON
    Garbage { hid: usize, variant: usize },
    /// list level: an unreferenced disclosure of any JSON shape
    Unreferenced(Value),
    /// list level: an unreferenced string that is no disclosure at all
    UnreferencedGarbage(String),
    /// list level: the disclosure of `hid` is presented twice
    PresentTwice(usize),
}

pub const SHAPES: [&str; 21] = [
    "length.0", "length.1", "length.2_value", "length.2_name", "length.3", "length.4", "length.5", "nonarray.object", "nonarray.string", "nonarray.number",
    "nonarray.null", "nonarray.bool", "salt_type.number", "salt_type.null", "salt_type.object", "salt_type.array", "name_type.number", "name_type.null",
    "name_type.array", "name_type.object", "name_type.bool",
];

/// the decoded disclosure in shape `kind`
fn shaped(kind: usize, member: bool, salt: &str, name: &str, value: Value) -> Value {
    let base = |s: Value, n: Value, v: Value| if member { json!([s, n, v]) } else { json!([s, v]) };
    match kind {
        0 => json!([]),
        1 => json!([salt]),
        2 => json!([salt, value]),
        3 => json!([salt, name]),
        4 => json!([salt, if member { name } else { "name" }, value]),
        5 => if member { json!([salt, name, value, null]) } else { json!([salt, value, null, null]) },
        6 => if member { json!([salt, name, value, "x", "y"]) } else { json!([salt, value, 1, 2, 3]) },
        7 => json!({"salt": salt, "name": name, "value": value}),
        8 => json!(format!("{} {}", salt, name)),
        9 => json!(42),
        10 => Value::Null,
        11 => json!(true),
        12 => base(json!(7), json!(name), value),
        13 => base(Value::Null, json!(name), value),
        14 => base(json!({ "s": salt }), json!(name), value),
        15 => base(json!([salt]), json!(name), value),
        16 => json!([salt, 5, value]),
        17 => json!([salt, null, value]),
        18 => json!([salt, [name], value]),
        19 => json!([salt, { "n": name }, value]),
        _ => json!([salt, true, value]),
    }
}

#[derive(Clone, Debug)]
pub struct Cont {
    pub is_obj: bool,
    /// hidden nodes enclosing this container, outermost first (empty: the container is in the payload itself)
    pub chain: Vec<usize>,
    pub hidden: Vec<usize>,
    pub visible: Vec<String>,
    pub root: bool,
}
#[derive(Clone, Debug)]
pub struct HInfo {
    pub cont: usize,
    pub member: bool,
    pub name: String,
    pub chain: Vec<usize>,
    pub path: Pos,
}
#[derive(Clone, Debug, PartialEq)]
pub struct DiscOut {
    pub hid: usize,
    pub text: String,
    pub digest: String,
}

struct Pass<'a> {
    tree: &'a Tree,
    devs: &'a [Dev],
    prev: &'a [Option<String>],
    discs: Vec<DiscOut>,
    conts: Vec<Cont>,
    hinfo: Vec<Option<HInfo>>,
}

impl<'a> Pass<'a> {
    fn digest_of(&self, s: &Src) -> String {
        match s {
            Src::Hidden(h) => self.prev.get(*h).cloned().flatten().unwrap_or_else(|| hash("digest not known yet")),
            Src::Decoy(d) => d.clone(),
        }
    }

    fn disclose(&mut self, h: usize, member: bool, name: &str, value: Value) -> String {
        let salt = self.tree.salts[h].clone();
        let mut name = name.to_string();
        let mut shape = None;
        let mut garbage = None;
        for d in self.devs {
            match d {
                Dev::Rename { hid, to } if *hid == h => name = to.clone(),
                Dev::Shape { hid, kind } if *hid == h && shape.is_none() => shape = Some(*kind),
                Dev::Garbage { hid, variant } if *hid == h => garbage = Some(*variant),
                _ => {}
            }
        }
        let decoded = match shape {
            Some(k) => shaped(k, member, &salt, &name, value),
            None => {
                if member {
                    json!([salt, name, value])
                } else {
                    json!([salt, value])
                }
            }
        };
        let text = match garbage {
            None => b64_json(&decoded),
            Some(0) => format!("!!not*base64url!!{}", h),
            Some(1) => b64(format!("not json at all {{ {}", h).as_bytes()),
            Some(2) => b64(format!("{} trailing", serde_json::to_string(&decoded).unwrap()).as_bytes()),
            Some(3) => format!("{}=", b64_json(&decoded)),
            Some(_) => b64(&[0xff, 0xfe, b'[', b']', (h & 0x7f) as u8]),
        };
        let digest = hash(&text);
        self.discs.push(DiscOut { hid: h, text, digest: digest.clone() });
        digest
    }

    fn node(&mut self, n: &Node, chain: &[usize], path: &Pos, root: bool) -> Value {
        match n {
            Node::Leaf(v) => v.clone(),
            Node::Obj(ms) => {
                let cid = self.conts.len();
                self.conts.push(Cont { is_obj: true, chain: chain.to_vec(), hidden: vec![], visible: vec![], root });
                let mut out = Map::new();
                let mut sd: Vec<String> = vec![];
                for m in ms {
                    let mut p = path.clone();
                    p.push(Step::Key(m.name.clone()));
                    match m.hid {
                        None => {
                            let v = self.node(&m.node, chain, &p, false);
                            out.insert(m.name.clone(), v);
                            self.conts[cid].visible.push(m.name.clone());
                        }
                        Some(h) => {
                            let mut ch = chain.to_vec();
                            ch.push(h);
                            let v = self.node(&m.node, &ch, &p, false);
                            let d = self.disclose(h, true, &m.name, v);
                            sd.push(d);
                            self.conts[cid].hidden.push(h);
                            self.hinfo[h] = Some(HInfo { cont: cid, member: true, name: m.name.clone(), chain: chain.to_vec(), path: p });
                        }
                    }
                }
                sd.sort();
                let first = sd.first().cloned().unwrap_or_else(|| hash("no digest here"));
                let mut sd: Vec<Value> = sd.into_iter().map(Value::String).collect();
                let mut sd_val: Option<Value> = None;
                for d in self.devs {
                    match d {
                        Dev::ExtraDigest { cont, src, at } if *cont == cid => {
                            let dg = self.digest_of(src);
                            let i = at % (sd.len() + 1);
                            sd.insert(i, json!(dg));
                        }
                        Dev::SdJunk { cont, junk, at } if *cont == cid => {
                            let i = at % (sd.len() + 1);
                            sd.insert(i, junk.clone());
                        }
                        Dev::NestedAlg { cont, value } if *cont == cid && !root => {
                            out.insert("_sd_alg".into(), value.clone());
                        }
                        Dev::SdNotArray { cont, variant } if *cont == cid => {
                            sd_val = Some(match variant {
                                0 => json!(first),
                                1 => json!({ "0": first }),
                                2 => json!(7),
                                3 => Value::Null,
                                _ => json!(false),
                            });
                        }
                        _ => {}
                    }
                }
                if sd_val.is_none() && !sd.is_empty() {
                    sd_val = Some(Value::Array(sd));
                }
                if root {
                    let mut alg = Some(json!("sha-256"));
                    for d in self.devs {
                        if let Dev::TopAlg(a) = d {
                            alg = a.clone();
                        }
                    }
                    if let Some(a) = alg {
                        out.insert("_sd_alg".into(), a);
                    }
                }
                match sd_val {
                    None => Value::Object(out),
                    Some(s) => {
                        if cid % 2 == 0 {
                            let mut m = Map::new();
                            m.insert("_sd".into(), s);
                            for (k, v) in out {
                                m.insert(k, v);
                            }
                            Value::Object(m)
                        } else {
                            out.insert("_sd".into(), s);
                            Value::Object(out)
                        }
                    }
                }
            }
            Node::Arr(es) => {
                let cid = self.conts.len();
                self.conts.push(Cont { is_obj: false, chain: chain.to_vec(), hidden: vec![], visible: vec![], root: false });
                let mut out = vec![];
                for (i, e) in es.iter().enumerate() {
                    let mut p = path.clone();
                    p.push(Step::Idx(i));
                    match e.hid {
                        None => out.push(self.node(&e.node, chain, &p, false)),
                        Some(h) => {
                            let mut ch = chain.to_vec();
                            ch.push(h);
                            let v = self.node(&e.node, &ch, &p, false);
                            let d = self.disclose(h, false, "", v);
                            self.conts[cid].hidden.push(h);
                            self.hinfo[h] = Some(HInfo { cont: cid, member: false, name: String::new(), chain: chain.to_vec(), path: p });
                            let mut ph = json!({ "...": d });
                            for dv in self.devs {
                                if let Dev::Placeholder { hid, variant } = dv {
                                    if *hid == h {
                                        ph = match variant {
                                            0 => json!({"...": d, "x": 1}),
                                            1 => json!({"x": 1, "...": d}),
                                            2 => json!({"...": d, "_sd": []}),
                                            3 => json!({"...": 5}),
                                            4 => json!({"...": null}),
                                            5 => json!({"...": [d]}),
                                            6 => json!({"...": {"...": d}}),
                                            _ => json!({"...": true}),
                                        };
                                    }
                                }
                            }
                            out.push(ph);
                        }
                    }
                }
                for d in self.devs {
                    if let Dev::ExtraDigest { cont, src, at } = d {
                        if *cont == cid {
                            let dg = self.digest_of(src);
                            let i = at % (out.len() + 1);
                            out.insert(i, json!({ "...": dg }));
                        }
                    }
                }
                Value::Array(out)
            }
        }
    }
}

pub struct Rendered {
    pub payload: Value,
    pub discs: Vec<DiscOut>,
    pub conts: Vec<Cont>,
    pub hinfo: Vec<HInfo>,
}

/// renders the tree with the deviations; digests that deviations copy elsewhere are resolved by iteration (None: no fixpoint,
/// i.e. a digest would have to contain itself)
pub fn render(tree: &Tree, devs: &[Dev]) -> Option<Rendered> {
    let mut prev: Vec<Option<String>> = vec![None; tree.salts.len()];
    for _ in 0..8 {
        let mut p = Pass { tree, devs, prev: &prev, discs: vec![], conts: vec![], hinfo: vec![None; tree.salts.len()] };
        let payload = p.node(&tree.root, &[], &vec![], true);
        let mut now: Vec<Option<String>> = vec![None; tree.salts.len()];
        for d in &p.discs {
            now[d.hid] = Some(d.digest.clone());
        }
        if now == prev {
            let hinfo = p.hinfo.into_iter().collect::<Option<Vec<_>>>()?;
            return Some(Rendered { payload, discs: p.discs, conts: p.conts, hinfo });
        }
        prev = now;
    }
    None
}

// ---------------------------------------------------------------------------
// choosing deviations

pub const KINDS: usize = 29;

fn pick_where<T: Clone>(r: &mut Rng, xs: &[T], f: impl Fn(&T) -> bool) -> Option<T> {
    let ok: Vec<&T> = xs.iter().filter(|x| f(x)).collect();
    if ok.is_empty() {
        None
    } else {
        Some(ok[r.below(ok.len())].clone())
    }
}

/// (class, deviations, on the property's explicit must-reject list)
pub fn pick_dev(r: &mut Rng, kind: usize, info: &Rendered) -> Option<(String, Vec<Dev>, bool)> {
    let hids: Vec<usize> = (0..info.hinfo.len()).collect();
    let cids: Vec<usize> = (0..info.conts.len()).collect();
    let member = |h: &usize| info.hinfo[*h].member;
    let elem = |h: &usize| !info.hinfo[*h].member;
    let at = r.below(1000);
    let place = |c: usize| if info.conts[c].chain.is_empty() { "payload" } else { "disclosed_value" };
    // a container that does not lie inside the value disclosed by h
    let outside = |c: usize, h: usize| !info.conts[c].chain.contains(&h);
    match kind {
        0 => {
            let h = pick_where(r, &hids, member)?;
            Some(("dup.same_sd_list".into(), vec![Dev::ExtraDigest { cont: info.hinfo[h].cont, src: Src::Hidden(h), at }], true))
        }
        1 => {
            let h = pick_where(r, &hids, elem)?;
            Some(("dup.same_array".into(), vec![Dev::ExtraDigest { cont: info.hinfo[h].cont, src: Src::Hidden(h), at }], true))
        }
        2 => {
            let h = pick_where(r, &hids, member)?;
            let c = pick_where(r, &cids, |c| info.conts[*c].is_obj && *c != info.hinfo[h].cont && outside(*c, h))?;
            Some((format!("dup.other_sd_list.{}", place(c)), vec![Dev::ExtraDigest { cont: c, src: Src::Hidden(h), at }], true))
        }
        3 => {
            let h = pick_where(r, &hids, elem)?;
            let c = pick_where(r, &cids, |c| !info.conts[*c].is_obj && *c != info.hinfo[h].cont && outside(*c, h))?;
            Some((format!("dup.other_array.{}", place(c)), vec![Dev::ExtraDigest { cont: c, src: Src::Hidden(h), at }], true))
        }
        4 => {
            let h = pick_where(r, &hids, |_| true)?;
            let want_obj = !info.hinfo[h].member;
            let c = pick_where(r, &cids, |c| info.conts[*c].is_obj == want_obj && outside(*c, h))?;
            Some((format!("dup.{}.{}", if want_obj { "placeholder_and_sd_list" } else { "sd_list_and_placeholder" }, place(c)), vec![Dev::ExtraDigest { cont: c, src: Src::Hidden(h), at }], true))
        }
        5 => {
            let c1 = pick_where(r, &cids, |_| true)?;
            let c2 = pick_where(r, &cids, |_| true)?;
            let d = hash(&format!("decoy {}", r.next()));
            Some((
                format!("dup.decoy_twice.{}", if c1 == c2 { "same_container" } else { "two_containers" }),
                vec![Dev::ExtraDigest { cont: c1, src: Src::Decoy(d.clone()), at }, Dev::ExtraDigest { cont: c2, src: Src::Decoy(d), at: at / 7 }],
                true,
            ))
        }
        6 => {
            let h = pick_where(r, &hids, |_| true)?;
            let c = pick_where(r, &cids, |c| !info.conts[*c].chain.is_empty() && outside(*c, h))?;
            Some(("dup.into_disclosed_value".into(), vec![Dev::ExtraDigest { cont: c, src: Src::Hidden(h), at }], true))
        }
        7 => {
            let c = pick_where(r, &cids, |c| info.conts[*c].is_obj && (!info.conts[*c].hidden.is_empty() || r_even(at)))?;
            let junk = match r.below(7) {
                0 => json!(1),
                1 => Value::Null,
                2 => json!(true),
                3 => json!({"...": hash("j")}),
                4 => json!([hash("j")]),
                5 => json!(1.5),
                _ => json!({}),
            };
            Some((format!("sd.nonstring_entry.{}", if info.conts[c].hidden.is_empty() { "only_entry" } else { "among_digests" }), vec![Dev::SdJunk { cont: c, junk, at }], false))
        }
        8 => {
            let c = pick_where(r, &cids, |c| info.conts[*c].is_obj && (!info.conts[*c].hidden.is_empty() || r_even(at)))?;
            let v = r.below(5);
            Some((format!("sd.not_array.{}", ["string", "object", "number", "null", "bool"][v]), vec![Dev::SdNotArray { cont: c, variant: v }], false))
        }
        9 => {
            let h = pick_where(r, &hids, elem)?;
            Some(("placeholder.extra_member".into(), vec![Dev::Placeholder { hid: h, variant: r.below(3) }], false))
        }
        10 => {
            let h = pick_where(r, &hids, elem)?;
            let v = 3 + r.below(5);
            Some((format!("placeholder.nonstring_digest.{}", ["number", "null", "array", "object", "bool"][v - 3]), vec![Dev::Placeholder { hid: h, variant: v }], false))
        }
        11 => {
            let h = pick_where(r, &hids, member)?;
            Some(("wrongkind.2_elements_from_sd".into(), vec![Dev::Shape { hid: h, kind: 2 }], true))
        }
        12 => {
            let h = pick_where(r, &hids, elem)?;
            Some(("wrongkind.3_elements_from_placeholder".into(), vec![Dev::Shape { hid: h, kind: 4 }], true))
        }
        13 => {
            let h = pick_where(r, &hids, |_| true)?;
            let k = if info.hinfo[h].member { *r.pick(&[0usize, 1, 3, 5, 6]) } else { *r.pick(&[0usize, 1, 5, 6]) };
            Some((format!("shape.{}.{}", SHAPES[k], if info.hinfo[h].member { "member" } else { "element" }), vec![Dev::Shape { hid: h, kind: k }], true))
        }
        14 => {
            let h = pick_where(r, &hids, |_| true)?;
            let k = 7 + r.below(5);
            Some((format!("shape.{}", SHAPES[k]), vec![Dev::Shape { hid: h, kind: k }], true))
        }
        15 => {
            let h = pick_where(r, &hids, |_| true)?;
            let k = 12 + r.below(4);
            Some((format!("shape.{}", SHAPES[k]), vec![Dev::Shape { hid: h, kind: k }], false))
        }
        16 => {
            let h = pick_where(r, &hids, member)?;
            let k = 16 + r.below(5);
            Some((format!("shape.{}", SHAPES[k]), vec![Dev::Shape { hid: h, kind: k }], true))
        }
        17 => {
            let h = pick_where(r, &hids, member)?;
            let to = if r.chance(1, 2) { "_sd" } else { "..." };
            Some((format!("name.reserved.{}", to), vec![Dev::Rename { hid: h, to: to.into() }], true))
        }
        18 => {
            let h = pick_where(r, &hids, |h| info.hinfo[*h].member && !info.conts[info.hinfo[*h].cont].visible.is_empty())?;
            let vis = &info.conts[info.hinfo[h].cont].visible;
            let to = vis[r.below(vis.len())].clone();
            Some(("name.collides_with_visible_member".into(), vec![Dev::Rename { hid: h, to }], true))
        }
        19 => {
            let h = pick_where(r, &hids, |h| info.hinfo[*h].member && info.conts[info.hinfo[*h].cont].hidden.len() >= 2)?;
            let sib: Vec<usize> = info.conts[info.hinfo[h].cont].hidden.iter().copied().filter(|x| *x != h).collect();
            let o = sib[r.below(sib.len())];
            Some(("name.collides_with_disclosed_member".into(), vec![Dev::Rename { hid: h, to: info.hinfo[o].name.clone() }], true))
        }
        20 => {
            let h = pick_where(r, &hids, |h| info.hinfo[*h].member && info.conts[info.hinfo[*h].cont].root)?;
            if r.chance(1, 2) {
                Some(("name._sd_alg_disclosed_at_top_level.alg_present".into(), vec![Dev::Rename { hid: h, to: "_sd_alg".into() }], false))
            } else {
                Some(("name._sd_alg_disclosed_at_top_level.alg_absent".into(), vec![Dev::Rename { hid: h, to: "_sd_alg".into() }, Dev::TopAlg(None)], false))
            }
        }
        21 => Some(("control.sd_alg_absent".into(), vec![Dev::TopAlg(None)], false)),
        22 => {
            let a = *r.pick(&["sha-512", "SHA-256", "", "sha256", "sha-256 ", "sha-384", "md5"]);
            Some(("alg.other_string".into(), vec![Dev::TopAlg(Some(json!(a)))], true))
        }
        23 => {
            let v = r.below(5);
            let a = [Value::Null, json!(1), json!(["sha-256"]), json!({"alg": "sha-256"}), json!(true)][v].clone();
            Some((format!("alg.nonstring.{}", ["null", "number", "array", "object", "bool"][v]), vec![Dev::TopAlg(Some(a))], false))
        }
        24 => {
            let c = pick_where(r, &cids, |c| info.conts[*c].is_obj && !info.conts[*c].root)?;
            let v = [json!("sha-256"), json!("md5"), json!(5), Value::Null, json!({"x": 1})][r.below(5)].clone();
            Some((format!("alg.nested_user_member.{}", place(c)), vec![Dev::NestedAlg { cont: c, value: v }], false))
        }
        25 => {
            let h = pick_where(r, &hids, |_| true)?;
            let v = r.below(5);
            Some((format!("disclosure.undecodable.{}", ["not_base64url", "not_json", "trailing_text", "padded", "not_utf8"][v]), vec![Dev::Garbage { hid: h, variant: v }], false))
        }
        26 => {
            let salt = gen_salt(r);
            let v = match r.below(8) {
                0 => json!([salt, "extra", "unreferenced"]),
                1 => json!([salt, 1]),
                2 => json!([]),
                3 => json!({"a": 1}),
                4 => json!("string"),
                5 => json!([salt, "_sd", ["x"]]),
                6 => json!([salt, "a", "b", "c", "d"]),
                _ => Value::Null,
            };
            if r.chance(1, 4) {
                Some(("disclosure.unreferenced.undecodable".into(), vec![Dev::UnreferencedGarbage(format!("%%{}", r.below(1000)))], false))
            } else {
                Some(("disclosure.unreferenced.any_json".into(), vec![Dev::Unreferenced(v)], false))
            }
        }
        27 => {
            let h = pick_where(r, &hids, |_| true)?;
            Some(("disclosure.presented_twice".into(), vec![Dev::PresentTwice(h)], false))
        }
        _ => {
            let c = pick_where(r, &cids, |_| true)?;
            let d = hash(&format!("decoy {}", r.next()));
            Some((format!("control.decoy_digest.{}", if info.conts[c].is_obj { "sd_list" } else { "array" }), vec![Dev::ExtraDigest { cont: c, src: Src::Decoy(d), at }], false))
        }
    }
}

fn r_even(n: usize) -> bool {
    n % 2 == 0
}

// ---------------------------------------------------------------------------
// cases

#[derive(Clone, Debug, PartialEq)]
pub enum Want {
    /// well-formed: must be accepted with the specification's claims
    Accept,
    /// an error, or exactly the specification's result
    Draft,
    /// on the property's explicit must-reject list, every disclosure presented
    Reject,
}

#[derive(Clone, Debug)]
pub struct Case08 {
    pub class: String,
    pub devs: Vec<Dev>,
    pub claims: Value,
    pub payload: Value,
    /// all disclosures the structure has (what an issuer would hand to the holder), in a random order
    pub all: Vec<String>,
    /// the disclosure strings presented to the verifier
    pub presented: Vec<String>,
    pub key: KeyId,
    pub fmt: Fmt,
    pub want: Want,
    pub own_view: Option<Value>,
    /// positions (in the original claims) of the hidden nodes the deviations touch
    pub affected: Vec<Pos>,
    pub withheld: usize,
}

fn shuffle<T>(r: &mut Rng, v: &mut Vec<T>) {
    for i in (1..v.len()).rev() {
        let j = r.below(i + 1);
        v.swap(i, j);
    }
}

pub fn gen_claims08(r: &mut Rng) -> Value {
    let cfg = TreeCfg { max_depth: 3, max_fanout: 3, path_safe_names: false, plain: r.chance(3, 4) };
    let mut claims = gen_claims(r, &cfg, now());
    let m = claims.as_object_mut().unwrap();
    if r.chance(1, 2) {
        m.insert("zz_list".into(), json!([gen_leaf(r, true), {"in_list": gen_leaf(r, true), "more": [1, 2]}, [gen_leaf(r, true), "y"], "last"]));
    }
    if r.chance(1, 2) {
        m.insert("zz_obj".into(), json!({"p": gen_leaf(r, true), "q": {"r": gen_leaf(r, true), "s": [gen_leaf(r, true), {"t": 1}]}, "u": "v"}));
    }
    if r.chance(1, 6) {
        m.insert("cnf".into(), json!({"jwk": KeyId::HolderEc.jwk_json().unwrap()}));
    }
    // deep structures now and then (thresholds on nesting depth)
    if r.chance(1, 12) {
        let d = r.range(20, 75);
        if let Some(v) = gen_deep_claims_with(r, d, now(), 10).get("deep") {
            m.insert("zz_deep".into(), v.clone());
        }
    }
    claims
}

fn dev_hids(devs: &[Dev]) -> Vec<usize> {
    let mut out = vec![];
    for d in devs {
        match d {
            Dev::Shape { hid, .. } | Dev::Rename { hid, .. } | Dev::Placeholder { hid, .. } | Dev::Garbage { hid, .. } | Dev::PresentTwice(hid) => out.push(*hid),
            Dev::ExtraDigest { src: Src::Hidden(h), .. } => out.push(*h),
            _ => {}
        }
    }
    out
}

/// one case: the tree rendered with `devs`; `subset`: 0 = every disclosure presented, 1 = a random subset, 2 = none
pub fn make_case(r: &mut Rng, tree: &Tree, claims: &Value, class: &str, devs: Vec<Dev>, must: bool, control: bool, subset: usize) -> Option<Case08> {
    let rd = render(tree, &devs)?;
    let mut all: Vec<DiscOut> = rd.discs.clone();
    shuffle(r, &mut all);
    let present: HashSet<usize> = match subset {
        0 => all.iter().map(|d| d.hid).collect(),
        1 => all.iter().map(|d| d.hid).filter(|_| r.chance(2, 3)).collect(),
        _ => HashSet::new(),
    };
    let mut presented: Vec<String> = all.iter().filter(|d| present.contains(&d.hid)).map(|d| d.text.clone()).collect();
    for d in &devs {
        match d {
            Dev::Unreferenced(v) => {
                let i = r.below(presented.len() + 1);
                presented.insert(i, b64_json(v));
            }
            Dev::UnreferencedGarbage(s) => {
                let i = r.below(presented.len() + 1);
                presented.insert(i, s.clone());
            }
            Dev::PresentTwice(h) => {
                if let Some(x) = all.iter().find(|x| x.hid == *h) {
                    let i = r.below(presented.len() + 1);
                    presented.insert(i, x.text.clone());
                }
            }
            _ => {}
        }
    }
    let withheld = all.len() - present.len();
    let want = if control {
        Want::Accept
    } else if must && withheld == 0 {
        Want::Reject
    } else {
        Want::Draft
    };
    let own_view = if control { Some(view(&tree.root, &present)) } else { None };
    let affected = dev_hids(&devs).into_iter().filter_map(|h| rd.hinfo.get(h).map(|x| x.path.clone())).collect();
    let (key, fmt) = (*r.pick(&[KeyId::IssuerEc, KeyId::IssuerEc, KeyId::IssuerEd, KeyId::Hmac1]), if r.chance(1, 2) { Fmt::Compact } else { Fmt::Json });
    Some(Case08 {
        class: format!("{}{}", class, if class == "control" { match subset { 0 => ".all_presented", 1 => ".some_withheld", _ => ".all_withheld" } } else { "" }),
        devs,
        claims: claims.clone(),
        payload: rd.payload,
        all: all.iter().map(|d| d.text.clone()).collect(),
        presented,
        key,
        fmt,
        want,
        own_view,
        affected,
        withheld,
    })
}

/// the cases of one random claim tree: three controls, `n_dev` single deviations (kinds drawn without replacement, `all_kinds`:
/// every kind), `n_combo` combinations of two
pub fn tree_cases(r: &mut Rng, n_dev: usize, n_combo: usize, all_kinds: bool) -> Vec<Case08> {
    let claims = gen_claims08(r);
    let tree = tree_of_claims(r, &claims);
    let clean = match render(&tree, &[]) {
        Some(c) => c,
        None => return vec![],
    };
    let mut out = vec![];
    out.extend(make_case(r, &tree, &claims, "control", vec![], false, true, 0));
    out.extend(make_case(r, &tree, &claims, "control", vec![], false, true, 1));
    if r.chance(1, 3) {
        out.extend(make_case(r, &tree, &claims, "control", vec![], false, true, 2));
    }
    // a digest of the payload re-spelled so that it no longer is the digest of any disclosure (padding, blanks, case, one
    // character): the specification then finds no disclosure for it, whatever is presented
    if let Some(base) = make_case(r, &tree, &claims, "control", vec![], false, true, 0) {
        for _ in 0..2 {
            if let Some(c) = near_digest_case(r, &base) {
                out.push(c);
            }
        }
    }
    let mut kinds: Vec<usize> = (0..KINDS).collect();
    shuffle(r, &mut kinds);
    if !all_kinds {
        kinds.truncate(n_dev);
    }
    for k in kinds {
        if let Some((class, devs, must)) = pick_dev(r, k, &clean) {
            let control = class.starts_with("control.");
            let subset = if r.chance(1, 6) { 1 } else { 0 };
            out.extend(make_case(r, &tree, &claims, &class, devs, must, control, subset));
        }
    }
    for _ in 0..n_combo {
        let (k1, k2) = (r.below(KINDS), r.below(KINDS));
        if let (Some((c1, mut d1, _)), Some((c2, d2, _))) = (pick_dev(r, k1, &clean), pick_dev(r, k2, &clean)) {
            if k1 == k2 {
                continue;
            }
            d1.extend(d2);
            let subset = if r.chance(1, 6) { 1 } else { 0 };
            out.extend(make_case(r, &tree, &claims, &format!("combination[{} + {}]", c1.split('.').next().unwrap_or(""), c2.split('.').next().unwrap_or("")), d1, false, false, subset));
        }
    }
    out
}

fn collect_digest_slots<'a>(v: &'a mut Value, out: &mut Vec<&'a mut Value>) {
    match v {
        Value::Object(m) => {
            for (k, x) in m.iter_mut() {
                if k == "_sd" {
                    if let Value::Array(a) = x {
                        for d in a.iter_mut() {
                            if d.is_string() {
                                out.push(d);
                            }
                        }
                    }
                } else if k == "..." && x.is_string() {
                    out.push(x);
                } else {
                    collect_digest_slots(x, out);
                }
            }
        }
        Value::Array(a) => {
            for x in a.iter_mut() {
                collect_digest_slots(x, out);
            }
        }
        _ => {}
    }
}

/// `base` (a well-formed control with everything presented) with one digest of its payload re-spelled
pub fn near_digest_case(r: &mut Rng, base: &Case08) -> Option<Case08> {
    let mut c = base.clone();
    let mut slots = vec![];
    collect_digest_slots(&mut c.payload, &mut slots);
    if slots.is_empty() {
        return None;
    }
    let i = r.below(slots.len());
    let d = slots[i].as_str()?.to_string();
    let (name, nd) = match r.below(7) {
        0 => ("padded", format!("{}=", d)),
        1 => ("double_padded", format!("{}==", d)),
        2 => ("trailing_blank", format!("{} ", d)),
        3 => ("leading_blank", format!(" {}", d)),
        4 => ("uppercased", d.to_uppercase()),
        5 => ("last_character_changed", {
            let mut x = d.clone();
            let last = x.pop().unwrap_or('A');
            x.push(if last == 'A' { 'E' } else { 'A' });
            x
        }),
        _ => ("std_alphabet", d.replace('-', "+").replace('_', "/") + "="),
    };
    if nd == d {
        return None;
    }
    *slots[i] = json!(nd);
    c.class = format!("neardigest.{}", name);
    c.want = Want::Draft;
    c.own_view = None;
    Some(c)
}

/// the first two components of a class name ("dup.other_sd_list.payload" -> "dup.other_sd_list")
pub fn class2(class: &str) -> String {
    if class.starts_with("combination") {
        return "combination_of_two".into();
    }
    class.split('(').next().unwrap_or("").split('.').take(2).collect::<Vec<_>>().join(".")
}

pub fn spec_process_request(payload: &Value, disclosures: &[String]) -> Value {
    json!({"id": 0, "op": "spec_process", "payload": payload, "disclosures": disclosures})
}

impl Case08 {
    pub fn jwt(&self) -> String {
        sign_payload(&self.payload, self.key)
    }
    pub fn text(&self, disclosures: &[String]) -> String {
        Parts { jwt: self.jwt(), disclosures: disclosures.to_vec(), kb: None }.render(self.fmt)
    }
    pub fn verify_args(&self) -> VerifyArgs {
        VerifyArgs { input: self.text(&self.presented), fmt: self.fmt, resolver: Resolver::always(self.key), aud: None, nonce: None }
    }
    pub fn attack(&self) -> Attack {
        let req = spec_process_request(&self.payload, &self.presented);
        let expect = match self.want {
            Want::Accept => Expect::DraftAccept(req, self.own_view.clone()),
            Want::Draft => Expect::Draft(req),
            Want::Reject => Expect::DraftReject(req),
        };
        Attack {
            name: format!("{}: {} {}", class2(&self.class), self.class, self.devs.iter().map(|d| format!("{:?}", d)).collect::<Vec<_>>().join("; ")),
            args: self.verify_args(),
            expect,
            origin: json!({
                "expect": match self.want { Want::Accept => "accept", Want::Draft => "draft", Want::Reject => "reject" },
                "own_view": self.own_view,
                "payload": self.payload,
                "disclosures": self.presented.iter().map(|d| decode_disclosure(d).unwrap_or(json!({"undecodable": d}))).collect::<Vec<_>>(),
            }),
            nontrivial: true,
        }
    }
}

/// rebuilds the attack from the `case` object of a replay file: payload and disclosures are read back from the stored input
pub fn attack_of_case(case: &Value) -> Option<Attack> {
    let input = case.get("input")?.as_str()?.to_string();
    let fmt = Fmt::from_name(case.get("fmt")?.as_str()?);
    let key = case.get("resolver").and_then(|r| r.get("default")).and_then(|k| k.get("id")).and_then(Value::as_u64).and_then(crate::props::key_by_id).unwrap_or(KeyId::IssuerEc);
    let parts = split(fmt, &input)?;
    let payload = parts.payload().unwrap_or(Value::Null);
    let req = spec_process_request(&payload, &parts.disclosures);
    let origin = case.get("origin").cloned().unwrap_or(Value::Null);
    let expect = match origin.get("expect").and_then(Value::as_str) {
        Some("accept") => Expect::DraftAccept(req, origin.get("own_view").filter(|v| !v.is_null()).cloned()),
        Some("reject") => Expect::DraftReject(req),
        _ => Expect::Draft(req),
    };
    Some(Attack {
        name: case.get("attack").and_then(Value::as_str).unwrap_or("replay").to_string(),
        args: VerifyArgs { input, fmt, resolver: Resolver::always(key), aud: case.get("aud").and_then(Value::as_str).map(String::from), nonce: case.get("nonce").and_then(Value::as_str).map(String::from) },
        expect,
        origin,
        nontrivial: true,
    })
}

pub fn run(ctx: &mut Ctx, replay: Option<&str>) {
    ctx.rule = "payloads built by the harness's own builder from random claim trees (iss, far-future exp, _sd_alg, sorted _sd lists, {\"...\": digest} placeholders, hidden values nested inside hidden values, decoys), \
                signed with a test issuer key through jsonwebtoken directly (ES256 / EdDSA / HS256), both serializations, presented with all / some / none of their disclosures (controls: must be accepted with the \
                specification's claims, which must also equal the builder's own view), and per tree a random draw of the single deviations: a digest repeated in its own _sd list / array, in another _sd list or array \
                (in the payload or inside a disclosed value), between an _sd list and a placeholder, a decoy digest used twice; non-string _sd entries; _sd not an array; placeholders with extra members or non-string \
                digests; 2-element disclosure referenced from _sd, 3-element from a placeholder; disclosures decoding to arrays of length 0..5, to non-arrays, with non-string salt or non-string name; disclosed names \
                _sd, ..., a visible sibling's name, another disclosed sibling's name, _sd_alg at top level; _sd_alg absent / another string / non-string / nested as user data; undecodable, unreferenced and repeated \
                disclosure strings; plus combinations of two. Verdict per case: verifier = Err, or = extracted spec_process result; Err required when spec_process says none and (independently of the oracle) for the \
                classes on the property's must-reject list when every disclosure is presented. non-trivial = every case whose signature verifies (all do by construction); distinct by class + presented text".into();
    if let Some(path) = replay {
        let v: Option<Value> = std::fs::read_to_string(path).ok().and_then(|s| serde_json::from_str(&s).ok());
        if let Some(a) = v.as_ref().and_then(|v| v.get("case")).and_then(attack_of_case) {
            run_attacks(ctx, &[a]);
        } else {
            ctx.notes.push("replay file has no usable case".into());
        }
        return;
    }
    let trees = ctx.tier.pick(118, 4700);
    let mut attacks: Vec<Attack> = vec![];
    let mut sampled = 0;
    for t in 0..trees {
        let mut r = ctx.rng.fork(t as u64);
        // every 10th tree goes through every kind of deviation
        let cases = tree_cases(&mut r, 10, 3, t % 10 == 0);
        for c in &cases {
            ctx.count(&format!("fmt.{}.alg.{}", c.fmt.name(), c.key.alg()));
            ctx.count(&format!("expectation.{}", match c.want { Want::Accept => "must-accept", Want::Draft => "err-or-spec", Want::Reject => "must-reject" }));
            ctx.count(&format!("disclosures.{}", if c.withheld == 0 { "all_presented" } else { "some_withheld" }));
            if sampled < 3 && ((sampled == 0 && c.class.starts_with("dup.")) || (sampled == 1 && c.class.starts_with("wrongkind")) || (sampled == 2 && c.class.starts_with("name."))) {
                ctx.sample(json!({"class": c.class, "deviation": format!("{:?}", c.devs), "payload": c.payload,
                                  "disclosures": c.presented.iter().map(|d| decode_disclosure(d)).collect::<Vec<_>>()}));
                sampled += 1;
            }
            attacks.push(c.attack());
        }
        if attacks.len() >= 3000 {
            run_attacks(ctx, &attacks);
            attacks.clear();
        }
    }
    for c in sweep_cases(&mut ctx.rng.fork(6_000_000), ctx.tier) {
        ctx.count("stream.count_sweep");
        attacks.push(c.attack());
    }
    run_attacks(ctx, &attacks);
}

/// counts swept across the boundaries where bookkeeping changes representation (powers of two and their neighbours): how many
/// distinct digests are met before a repeated one, and how many elements a referenced disclosure has
pub fn sweep_cases(r: &mut Rng, tier: Tier) -> Vec<Case08> {
    let far = now() + 100000;
    let mut out = vec![];
    let mut ns: Vec<usize> = (0..=70).collect();
    ns.extend([127usize, 128, 129, 255, 256, 257]);
    if tier == Tier::Thorough {
        ns.extend([511usize, 512, 513, 1023, 1024, 1025]);
    }
    let disc = b64_json(&json!(["c2FsdHNhbHRzYWx0c2FsdA", "admin", true]));
    let d = hash(&disc);
    for (k, n) in ns.iter().enumerate() {
        let decoys: Vec<Value> = (0..*n).map(|i| json!(hash(&format!("decoy-{}-{}", n, i)))).collect();
        let mut first = decoys.clone();
        first.push(json!(d));
        // (a) the repeated digest is the (n+1)-th distinct one met: first inside member "a", again inside member "b"
        let payload = json!({"iss": "https://issuer.example", "exp": far, "_sd_alg": "sha-256", "a": {"_sd": first}, "b": {"_sd": [d.clone()]}});
        out.push(Case08 { class: format!("sweep.duplicate_after_n_distinct_digests: {}", n), devs: vec![], claims: Value::Null, payload, all: vec![disc.clone()], presented: vec![disc.clone()],
                          key: *r.pick(&[KeyId::IssuerEc, KeyId::IssuerEd, KeyId::Hmac1]), fmt: if k % 2 == 0 { Fmt::Compact } else { Fmt::Json }, want: Want::Reject, own_view: None, affected: vec![], withheld: 0 });
        // (b) the same with the second occurrence in an array placeholder
        let mut first = decoys;
        first.push(json!(d));
        let payload = json!({"iss": "https://issuer.example", "exp": far, "_sd_alg": "sha-256", "a": {"_sd": first}, "list": ["x", {"...": d.clone()}]});
        let disc2 = disc.clone();
        out.push(Case08 { class: format!("sweep.duplicate_after_n_distinct_digests(placeholder): {}", n), devs: vec![], claims: Value::Null, payload, all: vec![disc2.clone()], presented: vec![disc2],
                          key: KeyId::Hmac1, fmt: if k % 2 == 1 { Fmt::Compact } else { Fmt::Json }, want: Want::Reject, own_view: None, affected: vec![], withheld: 0 });
    }
    // arity of a referenced disclosure
    let mut lens: Vec<usize> = (0..=8).collect();
    lens.extend([255usize, 256, 257, 258, 259, 260, 511, 512, 513, 514, 515, 516]);
    for (k, len) in lens.iter().enumerate() {
        let mut arr = vec![json!("c2FsdHNhbHRzYWx0c2FsdA"), json!("admin"), json!(true)];
        arr.truncate(*len);
        while arr.len() < *len {
            arr.push(json!(arr.len()));
        }
        let dsc = b64_json(&Value::Array(arr));
        let dg = hash(&dsc);
        let from_sd = json!({"iss": "https://issuer.example", "exp": far, "_sd_alg": "sha-256", "_sd": [dg.clone()]});
        out.push(Case08 { class: format!("sweep.disclosure_length_from_sd: {}", len), devs: vec![], claims: Value::Null, payload: from_sd, all: vec![dsc.clone()], presented: vec![dsc.clone()],
                          key: KeyId::Hmac1, fmt: if k % 2 == 0 { Fmt::Compact } else { Fmt::Json }, want: if *len == 3 { Want::Draft } else { Want::Reject }, own_view: None, affected: vec![], withheld: 0 });
        let from_ph = json!({"iss": "https://issuer.example", "exp": far, "_sd_alg": "sha-256", "list": [{"...": dg}]});
        out.push(Case08 { class: format!("sweep.disclosure_length_from_placeholder: {}", len), devs: vec![], claims: Value::Null, payload: from_ph, all: vec![dsc.clone()], presented: vec![dsc],
                          key: KeyId::Hmac1, fmt: if k % 2 == 1 { Fmt::Compact } else { Fmt::Json }, want: if *len == 2 { Want::Draft } else { Want::Reject }, own_view: None, affected: vec![], withheld: 0 });
    }
    // ill-formed referenced disclosures whose text is long and full of multi-byte characters (whatever quotes or abbreviates the
    // offending text in a message cuts it at some byte offset)
    for (k, filler) in crate::gen::multibyte_fillers().into_iter().enumerate() {
        for (shape, member, val) in [("four-elements-from-sd", true, json!(["c2FsdA", "name", filler, "extra"])), ("three-elements-from-placeholder", false, json!(["c2FsdA", filler, "value"])),
                                     ("non-array-from-sd", true, json!(filler)), ("object-from-placeholder", false, json!({"text": filler})), ("one-element-from-sd", true, json!([filler]))] {
            if tier == Tier::Quick && (k + shape.len()) % 3 != 0 {
                continue;
            }
            let dsc = b64_json(&val);
            let dg = hash(&dsc);
            let payload = if member { json!({"iss": "https://issuer.example", "exp": far, "_sd_alg": "sha-256", "_sd": [dg]}) } else { json!({"iss": "https://issuer.example", "exp": far, "_sd_alg": "sha-256", "list": [1, {"...": dg}]}) };
            out.push(Case08 { class: format!("sweep.long_multibyte_illformed_disclosure: {} filler {}", shape, k), devs: vec![], claims: Value::Null, payload, all: vec![dsc.clone()], presented: vec![dsc],
                              key: KeyId::Hmac1, fmt: if k % 2 == 1 { Fmt::Compact } else { Fmt::Json }, want: Want::Reject, own_view: None, affected: vec![], withheld: 0 });
        }
    }
    // selective-disclosure structure beneath members whose names other layers give a meaning to: processed like any other member
    // (and a digest repeated there is a repeated digest)
    for (k, name) in ["cnf", "aud", "sub", "nbf", "iat", "jti", "vct", "status", "nonce", "sd_hash", "_sd_alg_", "x5c", "jwk"].iter().enumerate() {
        let d1 = b64_json(&json!(["c2FsdC1zcGVjaWFsLTE", "inner", {"v": k}]));
        let d2 = b64_json(&json!(["c2FsdC1zcGVjaWFsLTI", "element"]));
        let held = json!({"_sd": [hash(&d1)], "list": ["plain", {"...": hash(&d2)}], "kept": 1});
        let mut payload = json!({"iss": "https://issuer.example", "exp": far, "_sd_alg": "sha-256", "other": 1});
        payload[*name] = if k % 3 == 2 { json!([held.clone()]) } else { held.clone() };
        for (shape, presented) in [("all-presented", vec![d1.clone(), d2.clone()]), ("one-presented", vec![d2.clone()]), ("none-presented", vec![])] {
            out.push(Case08 { class: format!("sweep.structure_beneath_a_special_name: {} {}", name, shape), devs: vec![], claims: Value::Null, payload: payload.clone(), all: vec![d1.clone(), d2.clone()], presented,
                              key: KeyId::Hmac1, fmt: if k % 2 == 1 { Fmt::Compact } else { Fmt::Json }, want: Want::Draft, own_view: None, affected: vec![], withheld: 0 });
        }
        let mut dup = payload.clone();
        dup["again"] = json!({"_sd": [hash(&d1)]});
        out.push(Case08 { class: format!("sweep.structure_beneath_a_special_name: {} digest-repeated-elsewhere", name), devs: vec![], claims: Value::Null, payload: dup, all: vec![d1.clone(), d2.clone()], presented: vec![d1.clone()],
                          key: KeyId::Hmac1, fmt: if k % 2 == 0 { Fmt::Compact } else { Fmt::Json }, want: Want::Reject, own_view: None, affected: vec![], withheld: 0 });
    }
    // list entries that are no digests by their length or alphabet (nothing can match them), repeated: a repeated entry is a
    // repeated entry whatever it looks like — the specification decides
    for (k, odd) in ["", "abc", "A", &"a".repeat(42), &"a".repeat(44), &"a".repeat(86), "not base64url!", "\u{e9}\u{e9}", &hash("x")[..42], &format!("{}=", hash("x"))].iter().enumerate() {
        let odd = odd.to_string();
        for (shape, payload) in [
            ("same-list", json!({"iss": "https://issuer.example", "exp": far, "_sd_alg": "sha-256", "_sd": [odd.clone(), odd.clone()]})),
            ("two-levels", json!({"iss": "https://issuer.example", "exp": far, "_sd_alg": "sha-256", "_sd": [odd.clone()], "a": {"_sd": [odd.clone()]}})),
            ("list-and-placeholder", json!({"iss": "https://issuer.example", "exp": far, "_sd_alg": "sha-256", "_sd": [odd.clone()], "l": [{"...": odd.clone()}]})),
            ("two-placeholders", json!({"iss": "https://issuer.example", "exp": far, "_sd_alg": "sha-256", "l": [{"...": odd.clone()}, 1, {"...": odd.clone()}]})),
            ("once(control)", json!({"iss": "https://issuer.example", "exp": far, "_sd_alg": "sha-256", "_sd": [odd.clone()], "l": [{"...": hash("other")}]})),
        ] {
            out.push(Case08 { class: format!("sweep.repeated_entry_that_is_no_digest: {:?} {}", odd.chars().take(12).collect::<String>(), shape), devs: vec![], claims: Value::Null, payload, all: vec![], presented: vec![],
                              key: KeyId::Hmac1, fmt: if k % 2 == 0 { Fmt::Compact } else { Fmt::Json }, want: Want::Draft, own_view: None, affected: vec![], withheld: 0 });
        }
    }
    // two presented disclosures of ONE _sd list with the same claim name, in every order of the list and with others between them
    {
        let da = b64_json(&json!(["c2FsdC1kdXAtYQ", "street", "Real Street 1"]));
        let db = b64_json(&json!(["c2FsdC1kdXAtYg", "street", "Forged Street 9"]));
        let dx = b64_json(&json!(["c2FsdC1kdXAteA", "city", "K"]));
        let dy = b64_json(&json!(["c2FsdC1kdXAteQ", "zip", "1"]));
        let orders: Vec<Vec<&String>> = vec![vec![&da, &db], vec![&da, &dx, &db], vec![&db, &dx, &da], vec![&da, &dx, &dy, &db], vec![&dx, &da, &dy, &db], vec![&da, &db, &dx], vec![&dx, &dy, &da, &db]];
        for (k, order) in orders.iter().enumerate() {
            let sd: Vec<String> = order.iter().map(|d| hash(d)).collect();
            for nested in [false, true] {
                let payload = if nested { json!({"iss": "https://issuer.example", "exp": far, "_sd_alg": "sha-256", "address": {"_sd": sd.clone(), "country": "DE"}}) } else { json!({"iss": "https://issuer.example", "exp": far, "_sd_alg": "sha-256", "_sd": sd.clone()}) };
                let all: Vec<String> = order.iter().map(|d| (*d).clone()).collect();
                let mut rev = all.clone();
                rev.reverse();
                for (pname, presented) in [("in-list-order", all.clone()), ("reversed", rev)] {
                    out.push(Case08 { class: format!("sweep.same_name_twice_in_one_list: order {} {} {}", k, if nested { "nested" } else { "top" }, pname), devs: vec![], claims: Value::Null, payload: payload.clone(), all: all.clone(), presented,
                                      key: KeyId::Hmac1, fmt: if k % 2 == 0 { Fmt::Compact } else { Fmt::Json }, want: Want::Reject, own_view: None, affected: vec![], withheld: 0 });
                }
            }
        }
    }
    // array placeholders with a further member before or after "..." (built as raw payload text would order them)
    {
        let d = b64_json(&json!(["c2FsdC1waC1leHRyYQ", "element"]));
        let h = hash(&d);
        for (k, (name, el)) in [("extra-after", json!({"...": h.clone(), "note": "x"})), ("extra-before", json!({"note": "x", "...": h.clone()})), ("extra-before-null", json!({"a": null, "...": h.clone()})),
                                ("two-extras-around", json!({"a": 1, "...": h.clone(), "z": 2})), ("sd-before", json!({"_sd": [], "...": h.clone()})), ("empty-name-before", json!({"": 0, "...": h.clone()}))].into_iter().enumerate() {
            let payload = json!({"iss": "https://issuer.example", "exp": far, "_sd_alg": "sha-256", "list": ["plain", el]});
            for presented in [vec![d.clone()], vec![]] {
                out.push(Case08 { class: format!("sweep.placeholder_with_further_members: {} {}", name, if presented.is_empty() { "withheld" } else { "presented" }), devs: vec![], claims: Value::Null, payload: payload.clone(), all: vec![d.clone()], presented,
                                  key: KeyId::Hmac1, fmt: if k % 2 == 0 { Fmt::Compact } else { Fmt::Json }, want: Want::Reject, own_view: None, affected: vec![], withheld: 0 });
            }
        }
    }
    // _sd_alg in spellings near the one supported name: anything but exactly "sha-256" (or absent) names an unsupported hash
    {
        let d = b64_json(&json!(["c2FsdC1hbGc", "given_name", "Erika"]));
        for (k, alg) in [json!(" sha-256"), json!("sha-256 "), json!("sha-256\n"), json!("\tsha-256"), json!("SHA-256"), json!("Sha-256"), json!("sha256"), json!("sha_256"), json!("sha-256\u{0}"), json!("sha-256,sha-512"), json!("sha\u{2d}256x"),
                         json!("sha-384"), json!("sha-512"), json!("sha3-256"), json!(""), json!(["sha-256"]), json!({"alg": "sha-256"}), json!(256), json!(true), json!(null)].into_iter().enumerate() {
            let payload = json!({"iss": "https://issuer.example", "exp": far, "_sd_alg": alg, "_sd": [hash(&d)]});
            for presented in [vec![d.clone()], vec![]] {
                out.push(Case08 { class: format!("sweep.sd_alg_spelling: {} {}", alg, if presented.is_empty() { "nothing-presented" } else { "presented" }), devs: vec![], claims: Value::Null, payload: payload.clone(), all: vec![d.clone()], presented,
                                  key: KeyId::Hmac1, fmt: if k % 2 == 0 { Fmt::Compact } else { Fmt::Json }, want: Want::Reject, own_view: None, affected: vec![], withheld: 0 });
            }
        }
        for (k, payload) in [json!({"iss": "https://issuer.example", "exp": far, "_sd_alg": "sha-256", "_sd": [hash(&d)]}), json!({"iss": "https://issuer.example", "exp": far, "_sd": [hash(&d)]})].into_iter().enumerate() {
            out.push(Case08 { class: format!("sweep.sd_alg_spelling: control {}", k), devs: vec![], claims: Value::Null, payload, all: vec![d.clone()], presented: vec![d.clone()],
                              key: KeyId::Hmac1, fmt: if k % 2 == 0 { Fmt::Compact } else { Fmt::Json }, want: Want::Draft, own_view: None, affected: vec![], withheld: 0 });
        }
    }
    // disclosures whose JSON TEXT spells the reserved member names with escapes (the value is the same JSON value): nested digests
    // are processed, nested ill-formed entries and repeated digests rejected, exactly as for the plain spelling
    {
        let inner = b64_json(&json!(["c2FsdC1pbm5lci1lc2M", "country", "DE"]));
        let inner_el = b64_json(&json!(["c2FsdC1pbm5lci1lbGU", "second"]));
        let (hi, he) = (hash(&inner), hash(&inner_el));
        let texts: Vec<(&str, String, bool)> = vec![
            ("escaped-_sd-in-member-disclosure", format!("[\"c2FsdC1vdXRlci1lc2M\",\"address\",{{\"\\u005fsd\":[\"{}\"],\"street\":\"S\"}}]", hi), true),
            ("escaped-_sd-fully", format!("[\"c2FsdC1vdXRlci1lc2My\",\"address\",{{\"\\u005f\\u0073\\u0064\":[\"{}\"]}}]", hi), true),
            ("escaped-placeholder-in-member-disclosure", format!("[\"c2FsdC1vdXRlci1lc2Mz\",\"list\",[\"first\",{{\"\\u002e..\":\"{}\"}}]]", he), true),
            ("escaped-placeholder-in-element-disclosure", format!("[\"c2FsdC1vdXRlci1lc2M0\",[{{\".\\u002e.\":\"{}\"}}]]", he), false),
            ("spaced-and-escaped", format!("[ \"c2FsdC1vdXRlci1lc2M1\" , \"address\" , {{ \"\\u005Fsd\" : [ \"{}\" ] }} ]", hi), true),
        ];
        for (k, (name, text, member)) in texts.into_iter().enumerate() {
            let outer = b64(text.as_bytes());
            let ho = hash(&outer);
            let payload = if member { json!({"iss": "https://issuer.example", "exp": far, "_sd_alg": "sha-256", "_sd": [ho]}) } else { json!({"iss": "https://issuer.example", "exp": far, "_sd_alg": "sha-256", "arr": [{"...": ho}]}) };
            for (shape, presented) in [("all", vec![outer.clone(), inner.clone(), inner_el.clone()]), ("outer-only", vec![outer.clone()])] {
                // the unreferenced one of inner / inner_el is dropped from "all" so that no unreferenced disclosure is presented
                let presented: Vec<String> = presented.into_iter().filter(|d| *d == outer || (text.contains(&hi) && *d == inner) || (text.contains(&he) && *d == inner_el)).collect();
                out.push(Case08 { class: format!("sweep.reserved_names_spelled_with_escapes: {} {}", name, shape), devs: vec![], claims: Value::Null, payload: payload.clone(), all: presented.clone(), presented,
                                  key: KeyId::Hmac1, fmt: if k % 2 == 0 { Fmt::Compact } else { Fmt::Json }, want: Want::Draft, own_view: None, affected: vec![], withheld: 0 });
            }
            // the nested digest also at top level: a repeated digest
            let mut dup = payload.clone();
            dup["again"] = json!({"_sd": [if text.contains(&hi) { hi.clone() } else { he.clone() }]});
            out.push(Case08 { class: format!("sweep.reserved_names_spelled_with_escapes: {} digest-repeated", name), devs: vec![], claims: Value::Null, payload: dup, all: vec![outer.clone()], presented: vec![outer.clone()],
                              key: KeyId::Hmac1, fmt: if k % 2 == 1 { Fmt::Compact } else { Fmt::Json }, want: Want::Reject, own_view: None, affected: vec![], withheld: 0 });
        }
    }
    // a disclosed array element (or member value) that itself LOOKS like a placeholder: the specification decides what the
    // result is; the inner string is the digest of another presented disclosure, of nothing, or no digest at all
    {
        let inner2 = b64_json(&json!(["c2FsdC1pbm5lcg", "inner element"]));
        let inner3 = b64_json(&json!(["c2FsdC1pbm5lcg", "inner", "member"]));
        for (k, (name, x, also)) in [("digest-of-a-presented-2-element-disclosure", hash(&inner2), Some(inner2.clone())), ("digest-of-a-presented-3-element-disclosure", hash(&inner3), Some(inner3.clone())),
                                     ("digest-of-nothing", hash("nothing"), None), ("not-a-digest", "abc".to_string(), None), ("empty-string", String::new(), None)].into_iter().enumerate() {
            for (vshape, value) in [("bare", json!({"...": x.clone()})), ("with-sibling", json!({"...": x.clone(), "other": 1})), ("inside-array", json!([{"...": x.clone()}, 2])), ("as-sd-list", json!({"_sd": [x.clone()]}))] {
                for member in [false, true] {
                    let outer = if member { b64_json(&json!(["c2FsdC1vdXRlcg", "holder", value.clone()])) } else { b64_json(&json!(["c2FsdC1vdXRlcg", value.clone()])) };
                    let dg = hash(&outer);
                    let payload = if member { json!({"iss": "https://issuer.example", "exp": far, "_sd_alg": "sha-256", "_sd": [dg], "plain": ["p"]}) } else { json!({"iss": "https://issuer.example", "exp": far, "_sd_alg": "sha-256", "list": ["plain", {"...": dg}]}) };
                    let mut presented = vec![outer.clone()];
                    if let Some(i) = &also {
                        presented.push(i.clone());
                    }
                    out.push(Case08 { class: format!("sweep.disclosed_value_looks_like_a_placeholder: {} {} {}", name, vshape, if member { "member" } else { "element" }), devs: vec![], claims: Value::Null, payload, all: presented.clone(), presented,
                                      key: KeyId::Hmac1, fmt: if k % 2 == 1 { Fmt::Compact } else { Fmt::Json }, want: Want::Draft, own_view: None, affected: vec![], withheld: 0 });
                }
            }
        }
    }
    out
}

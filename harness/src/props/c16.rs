//! C16 — the deterministic-salt build (cargo feature `mock_salts`; harness feature `mock`)
//! is reproducible and preserves claim values.
//!
//! The crate takes disclosure salts from the process-wide queue `sd_jwt_rs::utils::SALTS`,
//! so everything here runs one call at a time (imp::issue installs the queue, calls the
//! issuer and reads the queue back, on one watchdog thread, while this thread waits).

use crate::ctx::*;
use crate::flow::*;
use crate::gen::*;
use crate::imp::*;
use crate::keys::KeyId;
use crate::model::{r_of, run_model};
use crate::rng::Rng;
use crate::tok::*;
use serde_json::{json, Map, Number, Value};
use std::collections::{HashMap, HashSet};

// ---------------------------------------------------------------------------
// generators

/// fragments that the spacing rewrite could mistake for JSON structure, and characters that
/// the \uXXXX escaping touches
const PIECES: [&str; 44] = [
    ",", ":", "[", "]", "{", "}", "\"", "\\", "  ", "   ", ", ", ": ", ",\"", "\":", "\\\"", "\\\\", "\\u0041", "\\n", ",,", "::", ":[", ",{", "\",\"", "\": \"",
    "a", "xy", "0", " ", "1,2", "[1, 2]", "{\"k\": \"v\"}", "null", "true", "/", "~", "'", "\n", "\t", "\u{e9}", "\u{df}", "\u{4e2d}", "\u{ffff}", "\u{1f600}", "\u{10ffff}",
];

fn special(r: &mut Rng) -> String {
    (0..r.range(1, 7)).map(|_| *r.pick(&PIECES)).collect()
}

fn leaf16(r: &mut Rng) -> Value {
    match r.below(20) {
        0..=10 => json!(special(r)),
        11 => json!(gen_string(r, true)),
        12 => gen_leaf(r, false),
        13 => json!(r.next() % 100_000),
        14 => json!(-((r.next() % 100_000) as i64)),
        15 => {
            let fs = [1.5, -0.25, 1e21, 1e-7, 123456.789, -0.0, 5e-324, 1.7976931348623157e308];
            Value::Number(Number::from_f64(*r.pick(&fs)).unwrap())
        }
        16 => json!(u64::MAX),
        17 => Value::Null,
        18 => json!(r.chance(1, 2)),
        _ => json!(""),
    }
}

fn name16(r: &mut Rng, safe: bool) -> String {
    loop {
        let mut s = match r.below(9) { 0 => r.pick(&NOTABLE_NAMES).to_string(), 1..=5 => gen_string(r, true), _ => special(r) };
        if safe {
            s = s.replace(['.', '['], "_");
        }
        if !FORBIDDEN_NAMES.contains(&s.as_str()) {
            return s;
        }
    }
}

fn value16(r: &mut Rng, depth: usize, max_depth: usize, safe: bool) -> Value {
    if depth >= max_depth || !r.chance(if depth == 0 { 3 } else { 2 }, 5) {
        return leaf16(r);
    }
    if r.chance(1, 2) {
        let mut m = Map::new();
        let n = if r.chance(1, 8) { 0 } else { r.range(1, 4) };
        for _ in 0..n {
            let k = name16(r, safe);
            let v = value16(r, depth + 1, max_depth, safe);
            m.insert(k, v);
        }
        Value::Object(m)
    } else {
        let n = if r.chance(1, 8) { 0 } else { r.range(1, 4) };
        Value::Array((0..n).map(|_| value16(r, depth + 1, max_depth, safe)).collect())
    }
}

const B64URL: &[u8] = b"ABCDEFGHIJKLMNOPQRSTUVWXYZabcdefghijklmnopqrstuvwxyz0123456789-_";

/// `n` pairwise distinct strings over the base64url alphabet (never `"`, `\` or a repeat:
/// DESIGN.md §6 C16, scope of the salt queue)
pub fn gen_queue(r: &mut Rng, n: usize) -> Vec<String> {
    let class = r.below(4);
    let mut seen = HashSet::new();
    let mut q = vec![];
    if class == 3 {
        // the empty string is a string over the base64url alphabet too
        for s in ["null", "", "true", "0", "123", "-", "_", "e", "1e5"] {
            if q.len() < n && seen.insert(s.to_string()) {
                q.push(s.to_string());
            }
        }
    }
    let mut k = 0usize;
    while q.len() < n {
        let s: String = match class {
            0 => (0..22).map(|_| *r.pick(B64URL) as char).collect(),
            1 => {
                k += 1;
                format!("salt{}", k)
            }
            _ => (0..r.range(1, 43)).map(|_| *r.pick(B64URL) as char).collect(),
        };
        if seen.insert(s.clone()) {
            q.push(s);
        }
    }
    q
}

#[derive(Clone)]
pub struct Case {
    /// `queue`: the ample queue of the first issuance
    pub args: IssueArgs,
    /// the second and third issuance get a queue of (number of disclosures + extra) salts
    pub extra: usize,
}

impl Case {
    fn json(&self) -> Value {
        json!({"issue": self.args.json(), "extra": self.extra})
    }
}

fn n_positions(v: &Value) -> usize {
    let mut ps = vec![];
    all_positions(v, &vec![], &mut ps);
    ps.len()
}

pub fn gen_case(r: &mut Rng, tier: Tier) -> Case {
    let now = now();
    let custom = r.chance(1, 4);
    let max_depth = if tier == Tier::Quick { 3 } else { 4 };
    // the usual claim trees (iss, exp, sometimes iat/sub/nbf) ...
    let plain = r.chance(1, 2);
    let base = gen_claims(r, &TreeCfg { max_depth: 2, max_fanout: 2, path_safe_names: custom, plain }, now);
    // ... with members rich in separators, quotes, backslashes, spaces and non-ASCII text at random places
    let mut items: Vec<(String, Value)> = base.as_object().cloned().unwrap_or_default().into_iter().collect();
    for _ in 0..r.range(1, 5) {
        let k = name16(r, custom);
        if items.iter().any(|(x, _)| *x == k) {
            continue;
        }
        let v = value16(r, 0, max_depth, custom);
        let at = r.below(items.len() + 1);
        items.insert(at, (k, v));
    }
    // now and then a chain of containers deeper than any guard a walk might carry, with spaced text at the bottom
    let deep = !custom && r.chance(1, 14);
    if deep {
        let mut v = json!({"leaf": leaf16(r), "list": [leaf16(r), {"k": leaf16(r)}]});
        for d in 0..r.range(30, 62) {
            v = if (d + r.below(2)) % 3 == 0 { json!([v]) } else { json!({"n": v, "s": d}) };
        }
        items.push(("deep_chain".into(), v));
    }
    // ... a value whose disclosure text runs to more than a megabyte (spaced text inside), once in a while
    if !custom && r.chance(1, 45) {
        let unit = format!("{} ", special(r));
        items.push(("scan".into(), json!({"page": unit.repeat(1_150_000 / unit.len().max(1)), "n": 1})));
    }
    // ... and twin subtrees (the same names and values at two places), for queues that repeat a salt
    let repeats = r.chance(1, 7);
    if repeats {
        let twin = json!({"country": "DE", "zip": leaf16(r), "tags": ["a", "a"]});
        items.push(("home_address".into(), twin.clone()));
        items.push(("work_address".into(), twin));
    }
    // now and then nothing to disclose at all (only the always-visible claims, or paths that name nothing): no salt is needed,
    // and the second and third issuance then run with an EMPTY queue
    let nothing = !deep && !repeats && r.chance(1, 12);
    if nothing {
        items.retain(|(k, _)| ["iss", "iat", "exp"].contains(&k.as_str()));
    }
    let claims = Value::Object(items.into_iter().collect());
    let strategy = if nothing { match r.below(4) { 0 => Strategy::All, 1 => Strategy::Top, 2 => Strategy::Custom(vec![]), _ => Strategy::Custom(vec!["$.nothing.here".into()]) } } else if deep { Strategy::All } else if custom {
        loop {
            let s = gen_strategy(r, &claims, true);
            if matches!(s, Strategy::Custom(_)) {
                break s;
            }
        }
    } else {
        match r.below(6) {
            0 => Strategy::None,
            1 | 2 => Strategy::Top,
            _ => Strategy::All,
        }
    };
    let (key, alg) = match r.below(5) {
        0 | 1 => (KeyId::Hmac1, Some("HS256".to_string())),
        2 | 3 => (KeyId::IssuerEd, Some("EdDSA".to_string())),
        _ => (KeyId::IssuerEc, if r.chance(1, 2) { None } else { Some("ES256".to_string()) }),
    };
    let holder = match r.below(6) {
        0 => Some(KeyId::HolderEc),
        1 => Some(KeyId::HolderEd),
        _ => None,
    };
    let fmt = if r.chance(1, 2) { Fmt::Compact } else { Fmt::Json };
    let spare = r.range(1, 4);
    let mut queue = gen_queue(r, n_positions(&claims) + spare);
    if repeats {
        // the property quantifies over ALL queues that are long enough: one salt may occur several times (clause 1 still holds;
        // two identical disclosures may then arise, which holder and verifier refuse as a repeated digest — not judged)
        match r.below(3) {
            0 => {
                let s = queue[0].clone();
                for q in queue.iter_mut() {
                    *q = s.clone();
                }
            }
            1 => {
                for j in 1..queue.len() {
                    if r.chance(1, 3) {
                        queue[j] = queue[r.below(j)].clone();
                    }
                }
            }
            _ => {
                let n = queue.len();
                for j in 0..n {
                    queue[j] = queue[j % 3.min(n)].clone();
                }
            }
        }
    }
    let extra = if nothing || r.chance(1, 2) { 0 } else { r.range(1, 3) };
    Case { args: IssueArgs { claims, strategy, holder, decoy: r.chance(1, 4), fmt, key, alg, queue: Some(queue) }, extra }
}

// ---------------------------------------------------------------------------
// the harness's own unpacking of an issued SD-JWT (value preservation, clause 3)

struct Unpack<'a> {
    by_digest: &'a HashMap<String, Value>,
    used: HashSet<String>,
    problems: Vec<String>,
}

impl<'a> Unpack<'a> {
    fn go(&mut self, v: &Value, top: bool) -> Value {
        match v {
            Value::Object(m) => {
                let mut out = Map::new();
                let mut opened = vec![];
                for (k, x) in m {
                    if k == "_sd" {
                        for d in x.as_array().cloned().unwrap_or_default() {
                            if let Some(dec) = d.as_str().and_then(|d| self.by_digest.get(d).map(|x| (d.to_string(), x.clone()))) {
                                opened.push(dec);
                            }
                        }
                    } else if top && k == "_sd_alg" {
                    } else {
                        let y = self.go(x, false);
                        out.insert(k.clone(), y);
                    }
                }
                for (d, dec) in opened {
                    match dec.as_array().map(|a| a.as_slice()) {
                        Some([_, Value::String(name), value]) => {
                            if !self.used.insert(d) {
                                self.problems.push("a disclosure is referenced by two digests".into());
                            }
                            let y = self.go(value, false);
                            if out.insert(name.clone(), y).is_some() {
                                self.problems.push(format!("the disclosed name {:?} collides with another member", name));
                            }
                        }
                        _ => self.problems.push("an _sd digest refers to a disclosure that is not [salt, name, value]".into()),
                    }
                }
                Value::Object(out)
            }
            Value::Array(a) => {
                let mut out = vec![];
                for x in a {
                    let d = x.as_object().filter(|o| o.len() == 1).and_then(|o| o.get("...")).and_then(Value::as_str);
                    match d {
                        Some(d) => match self.by_digest.get(d).cloned() {
                            Some(dec) => match dec.as_array().map(|a| a.as_slice()) {
                                Some([_, value]) => {
                                    if !self.used.insert(d.to_string()) {
                                        self.problems.push("a disclosure is referenced by two digests".into());
                                    }
                                    let y = self.go(value, false);
                                    out.push(y);
                                }
                                _ => self.problems.push("an array placeholder refers to a disclosure that is not [salt, value]".into()),
                            },
                            None => {} // a placeholder nobody can open
                        },
                        None => {
                            let y = self.go(x, false);
                            out.push(y);
                        }
                    }
                }
                Value::Array(out)
            }
            leaf => leaf.clone(),
        }
    }
}

fn has_special(s: &str) -> bool {
    s.contains([',', ':', '[', '"', '\\']) || s.contains("  ")
}

fn strings_of<'a>(v: &'a Value, out: &mut Vec<&'a str>) {
    match v {
        Value::String(s) => out.push(s),
        Value::Array(a) => a.iter().for_each(|x| strings_of(x, out)),
        Value::Object(m) => m.values().for_each(|x| strings_of(x, out)),
        _ => {}
    }
}

struct Read {
    parts: Parts,
    /// decoded disclosures, in the order of the issued text
    decoded: Vec<Value>,
    salts: Vec<String>,
}

/// splits an issued text and parses every disclosure with serde_json; Err = what is malformed
fn read_issued(fmt: Fmt, s: &str) -> Result<Read, String> {
    let parts = split(fmt, s).ok_or("issued text is not in the requested serialization")?;
    let mut decoded = vec![];
    let mut salts = vec![];
    for d in &parts.disclosures {
        let text = unb64(d).and_then(|b| String::from_utf8(b).ok()).ok_or("a disclosure is not base64url of UTF-8 text")?;
        let v: Value = serde_json::from_str(&text).map_err(|e| format!("disclosure text {:?} is not JSON: {}", text, e))?;
        let ok = match v.as_array().map(|a| a.as_slice()) {
            Some([Value::String(_), _]) | Some([Value::String(_), Value::String(_), _]) => true,
            _ => false,
        };
        if !ok {
            return Err(format!("disclosure text {:?} is not [salt, value] / [salt, name, value]", text));
        }
        salts.push(v[0].as_str().unwrap().to_string());
        decoded.push(v);
    }
    Ok(Read { parts, decoded, salts })
}

fn deterministic_alg(a: &IssueArgs) -> bool {
    matches!(a.alg.as_deref(), Some("HS256") | Some("EdDSA"))
}

struct Exec {
    case: Case,
    a: IssueRes,
    /// second and third issuance (identical arguments and queue), when the first one succeeded
    bc: Option<(IssueArgs, IssueRes, IssueRes)>,
    hold: Option<HolderRes>,
    ver: Option<VerifyRes>,
    req_a: usize,
    req_b: Option<usize>,
}

fn execute(ctx: &mut Ctx, case: &Case, reqs: &mut Vec<Value>) -> Exec {
    let a = issue(&case.args);
    ctx.impl_calls += 1;
    let req_a = reqs.len();
    // (a megabyte-long disclosure takes the extracted model minutes: such a case is judged by the rules below alone)
    let large = case.args.claims.get("scan").is_some();
    reqs.push(if large { json!({"id": req_a, "op": "not-asked(large case)"}) } else { issue_request(req_a, &case.args, &a) });
    let mut ex = Exec { case: case.clone(), a, bc: None, hold: None, ver: None, req_a, req_b: None };
    let d = match ex.a.out.ok().and_then(|s| split(case.args.fmt, s)) {
        Some(p) => p.disclosures.len(),
        None => return ex,
    };
    let qa = case.args.queue.clone().unwrap_or_default();
    let mut args_b = case.args.clone();
    args_b.queue = Some(qa[..(d + case.extra).min(qa.len())].to_vec());
    let b = issue(&args_b);
    // the third issuance comes, for every other case, from an issuer instance that has already issued another credential in the
    // JSON format (or in the compact one) with a queue of its own: an instance is reusable, the outcome is that of a fresh one
    let c = if ctx.evaluations % 2 == 0 {
        let mut warm = args_b.clone();
        warm.claims = json!({"iss": "https://issuer.example", "exp": now() + 100000, "warm": {"a": "x, y", "b": [1, "two"]}, "up": "p"});
        warm.strategy = Strategy::All;
        warm.fmt = if ctx.evaluations % 4 == 0 { Fmt::Json } else { Fmt::Compact };
        warm.holder = None;
        warm.queue = Some((0..8).map(|k| format!("warmsalt{}", k)).collect());
        match issue_sequence(args_b.key, args_b.alg.clone(), vec![warm, args_b.clone()]) {
            Some(mut seq) if seq.len() == 2 => {
                ctx.count("issuer.reused_instance(third issuance)");
                seq.pop().unwrap()
            }
            _ => issue(&args_b),
        }
    } else {
        issue(&args_b)
    };
    ctx.impl_calls += 2;
    let i = reqs.len();
    reqs.push(if large { json!({"id": i, "op": "not-asked(large case)"}) } else { issue_request(i, &args_b, &b) });
    ex.req_b = Some(i);
    if let Some(s) = b.out.ok() {
        let sel = select_all(&case.args.claims).as_object().cloned().unwrap_or_default();
        let h = holder_session(s, case.args.fmt, &[PresentArgs::plain(sel)]);
        ctx.impl_calls += 1;
        if let Some(Outcome::Ok(p)) = h.calls.first().map(|c| c.out.clone()) {
            let vr = verify(&VerifyArgs { input: p, fmt: case.args.fmt, resolver: Resolver::always(case.args.key), aud: None, nonce: None });
            ctx.impl_calls += 1;
            ex.ver = Some(vr);
        }
        ex.hold = Some(h);
    }
    ex.bc = Some((args_b, b, c));
    ex
}

/// clause 1 on one issuance: the queue lost exactly one salt per disclosure, from the front,
/// and the disclosures' salts are that prefix
fn consumption(ctx: &mut Ctx, which: &str, queue: &[String], res: &IssueRes, read: &Read, problems: &mut Vec<String>) {
    let d = read.salts.len();
    if d > queue.len() {
        problems.push(format!("{}: {} disclosures from a queue of {} salts", which, d, queue.len()));
        return;
    }
    match &res.queue_left {
        Some(left) => {
            if left.as_slice() != &queue[d..] {
                problems.push(format!(
                    "{}: with {} disclosures the queue must be left as its last {} salts in their order; it holds {} salts ({})",
                    which,
                    d,
                    queue.len() - d,
                    left.len(),
                    if left.len() == queue.len() - d { "other salts or another order" } else { "not one salt consumed per disclosure" }
                ));
            }
        }
        None => problems.push(format!("{}: the salt queue could not be read back", which)),
    }
    if sorted(read.salts.clone()) != sorted(queue[..d].to_vec()) {
        problems.push(format!("{}: the salts of the {} disclosures are not the first {} salts of the queue", which, d, d));
    } else if read.salts.as_slice() == &queue[..d] {
        ctx.count("disclosures_listed_in_consumption_order");
    } else {
        ctx.count("disclosures_listed_in_another_order(allowed)");
    }
}

fn judge(ctx: &mut Ctx, ex: &Exec, resp: &[Value]) {
    ctx.oracle_checks += 1;
    let case = ex.case.json();
    let args = &ex.case.args;
    let qa = args.queue.clone().unwrap_or_default();
    let sa = match &ex.a.out {
        Outcome::Ok(s) => s,
        other => {
            ctx.violation("oracle", "issue", "the deterministic-salt build did not issue an SD-JWT for valid claims and an ample salt queue", case, other.describe(), json!("Ok(sd-jwt)"));
            return;
        }
    };
    let (args_b, b, c) = match &ex.bc {
        Some(x) => x,
        None => {
            ctx.violation("oracle", "issue", "issued text is not in the requested serialization", case, json!(sa), json!("jwt~d*~ or the JSON object"));
            return;
        }
    };
    let qb = args_b.queue.clone().unwrap_or_default();
    let (sb, sc) = match (&b.out, &c.out) {
        (Outcome::Ok(x), Outcome::Ok(y)) => (x, y),
        (x, y) => {
            ctx.violation(
                "oracle",
                "issue",
                "issuance succeeded with a longer queue but not with a queue of (number of disclosures + extra) salts",
                case,
                json!({"second": x.describe(), "third": y.describe(), "queue": qb}),
                json!("Ok(sd-jwt) both times"),
            );
            return;
        }
    };
    let mut problems: Vec<String> = vec![];
    let reads: Vec<Result<Read, String>> = [sa, sb, sc].iter().map(|s| read_issued(args.fmt, s)).collect();
    for (r, which) in reads.iter().zip(["first issuance", "second issuance", "third issuance"]) {
        if let Err(e) = r {
            problems.push(format!("{}: {}", which, e));
        }
    }
    if !problems.is_empty() {
        ctx.violation("oracle", "issue", &problems[0].clone(), case, json!({"problems": problems}), json!("every disclosure text parses as [salt, name?, value]"));
        return;
    }
    let (ra, rb, rc) = (reads[0].as_ref().unwrap(), reads[1].as_ref().unwrap(), reads[2].as_ref().unwrap());
    // (1) consumption
    consumption(ctx, "first issuance (ample queue)", &qa, &ex.a, ra, &mut problems);
    consumption(ctx, "second issuance", &qb, b, rb, &mut problems);
    consumption(ctx, "third issuance", &qb, c, rc, &mut problems);
    // (2) reproducibility: identical claims, strategy and (consumed) salts
    if !args.decoy {
        let seg = |p: &Parts, n: usize| p.jwt.split('.').nth(n).map(String::from);
        for (x, y, sx, sy, which) in [(rb, rc, sb, sc, "the second and third issuance (identical queue)"), (ra, rb, sa, sb, "the first and second issuance (same consumed salts)")] {
            if sorted(x.parts.disclosures.clone()) != sorted(y.parts.disclosures.clone()) {
                problems.push(format!("disclosures differ between {}", which));
            }
            if seg(&x.parts, 1) != seg(&y.parts, 1) {
                problems.push(format!("payload bytes differ between {}", which));
            }
            if deterministic_alg(args) && sx != sy {
                problems.push(format!("with {} the whole SD-JWT text differs between {}", args.alg.as_deref().unwrap_or(""), which));
            }
        }
        ctx.count(if deterministic_alg(args) { "byte_identity.whole_text" } else { "byte_identity.payload+disclosures" });
    } else {
        ctx.count("byte_identity.not_applicable(decoys on)");
    }
    // (3) value preservation: the harness's own unpacking, then holder + verifier
    let mut recovered = Value::Null;
    let expected = with_cnf(&args.claims, args.holder);
    'vp: {
        let distinct: HashSet<&String> = rb.parts.disclosures.iter().collect();
        if distinct.len() != rb.parts.disclosures.len() {
            // a repeated salt met an identical name and value: two identical disclosures, one digest twice (refused downstream)
            ctx.count("value_preservation.not_judged(identical disclosures from a repeated salt)");
            break 'vp;
        }
        let mut by_digest = HashMap::new();
        for (d, dec) in rb.parts.disclosures.iter().zip(&rb.decoded) {
            by_digest.insert(hash(d), dec.clone());
        }
        match rb.parts.payload() {
            Some(pl) => {
                let mut u = Unpack { by_digest: &by_digest, used: HashSet::new(), problems: vec![] };
                let rebuilt = u.go(&pl, true);
                problems.extend(u.problems.iter().cloned());
                if rebuilt != expected {
                    problems.push("putting every disclosed [salt, name?, value] back at the position of its digest does not give the original claims: a name or value was changed".into());
                }
            }
            None => problems.push("payload is not base64url(JSON)".into()),
        }
        match (&ex.hold, &ex.ver) {
            (Some(_), Some(vr)) => match &vr.out {
                Outcome::Ok(v) => {
                    recovered = v.clone();
                    if *v != expected {
                        problems.push("holder (everything selected) + verifier do not return the original claims".into());
                    }
                }
                other => problems.push(format!("the verifier rejected the full presentation: {}", other.describe())),
            },
            (Some(h), None) => problems.push(format!("the holder did not present everything: {}", h.calls.first().map(|c| c.out.describe()).unwrap_or(h.new.describe()))),
            _ => {}
        }
    }
    if !problems.is_empty() {
        ctx.violation(
            "oracle",
            "issue",
            &problems[0].clone(),
            case.clone(),
            json!({"problems": problems, "queue_second": qb, "queue_left_second": b.queue_left,
                   "disclosure_texts": rb.parts.disclosures.iter().map(|d| unb64(d).map(|b| String::from_utf8_lossy(&b).to_string())).collect::<Vec<_>>(),
                   "payload": rb.parts.payload(), "verified": recovered}),
            json!({"claims": expected}),
        );
        return;
    }
    // (4) the model predicts payload and disclosures byte for byte, and the queue that is left
    for (a, r, read, id, which) in [(args, &ex.a, ra, Some(ex.req_a), "first"), (args_b, b, rb, ex.req_b, "second")] {
        let m = match id {
            Some(i) => &resp[i],
            None => continue,
        };
        let before = ctx.violations.len();
        cmp_issue(ctx, a, r, m, true);
        if r_of(m) == "ok" && ctx.violations.len() == before {
            let mut diffs = vec![];
            if m.get("queue_left") != r.queue_left.as_ref().map(|q| json!(q)).as_ref() {
                diffs.push("queue_left".to_string());
            }
            if m.get("jwt").and_then(Value::as_str).and_then(|j| j.split('.').nth(1)) != read.parts.jwt.split('.').nth(1) {
                diffs.push("payload bytes".to_string());
            }
            // consumption order: the i-th salt of the queue goes to the claim the model gives it to
            let q = a.queue.clone().unwrap_or_default();
            let md: Vec<Option<Value>> = m.get("disclosures").and_then(Value::as_array).map(|x| x.iter().map(|d| d.as_str().and_then(decode_disclosure)).collect()).unwrap_or_default();
            // (a salt that occurs twice in the queue cannot be traced to one claim: the byte comparisons above stand alone then)
            let q_distinct = q.iter().collect::<HashSet<_>>().len() == q.len();
            for (i, d) in md.iter().enumerate().filter(|_| q_distinct) {
                let mine = read.salts.iter().position(|s| Some(s) == q.get(i)).map(|k| &read.decoded[k]);
                if mine != d.as_ref() {
                    diffs.push(format!("the salt at queue position {} is not used for the claim the model uses it for", i));
                    break;
                }
            }
            if !diffs.is_empty() {
                ctx.violation("correspondence", "issue", &format!("{} issuance differs from the model in: {}", which, diffs.join(", ")), case.clone(), json!({"impl": {"queue_left": r.queue_left, "issued": r.out.describe()}}), json!({"model": m}));
            }
        }
        for v in ctx.violations.iter_mut().skip(before) {
            v.case = case.clone();
        }
    }
    // distribution and the non-trivial rule
    let mut hidden_strings = vec![];
    for dec in &rb.decoded {
        strings_of(&dec[dec.as_array().unwrap().len() - 1], &mut hidden_strings);
    }
    let mut classes: Vec<(&str, bool)> = vec![
        ("comma", hidden_strings.iter().any(|s| s.contains(','))),
        ("colon", hidden_strings.iter().any(|s| s.contains(':'))),
        ("bracket", hidden_strings.iter().any(|s| s.contains('['))),
        ("quote", hidden_strings.iter().any(|s| s.contains('"'))),
        ("backslash", hidden_strings.iter().any(|s| s.contains('\\'))),
        ("two_spaces", hidden_strings.iter().any(|s| s.contains("  "))),
        ("non_ascii", hidden_strings.iter().any(|s| !s.is_ascii())),
        ("non_bmp", hidden_strings.iter().any(|s| s.chars().any(|c| c as u32 >= 0x10000))),
    ];
    classes.push(("special_hidden_name", rb.decoded.iter().any(|d| d.as_array().filter(|a| a.len() == 3).and_then(|a| a[1].as_str()).map(has_special).unwrap_or(false))));
    for (k, v) in classes {
        if v {
            ctx.count(&format!("hidden_string_with.{}", k));
        }
    }
    if hidden_strings.iter().any(|s| has_special(s)) {
        ctx.nontrivial(&case);
    }
    let d = rb.salts.len();
    ctx.count(&format!("disclosures.{}", match d { 0 => "0", 1..=3 => "1-3", 4..=10 => "4-10", 11..=30 => "11-30", _ => "30+" }));
    ctx.count(if ex.case.extra == 0 { "queue.exactly_as_long_as_the_disclosures" } else { "queue.longer" });
}

fn describe(ctx: &mut Ctx, c: &Case) {
    ctx.count(&format!("fmt.{}", c.args.fmt.name()));
    ctx.count(&format!("issuer_alg.{}", c.args.key.alg()));
    ctx.count(&format!("decoy.{}", c.args.decoy));
    ctx.count(&format!("strategy.{}", match &c.args.strategy { Strategy::None => "none", Strategy::Top => "top", Strategy::All => "all", Strategy::Custom(_) => "custom" }));
}

fn case_from_replay(ctx: &mut Ctx, path: &str) -> Option<Case> {
    let v: Value = serde_json::from_str(&std::fs::read_to_string(path).ok()?).ok()?;
    let case = v.get("case")?;
    let issue = case.get("issue").or_else(|| case.get("args"))?;
    let mut args = crate::props::flow_of_json(&json!({"issue": issue}))?.issue;
    if args.queue.is_none() {
        let n = n_positions(&args.claims) + 2;
        args.queue = Some(gen_queue(&mut ctx.rng, n));
    }
    Some(Case { args, extra: case.get("extra").and_then(Value::as_u64).unwrap_or(0) as usize })
}

pub fn run(ctx: &mut Ctx, replay: Option<&str>) {
    ctx.rule = "claims (usual trees plus members whose names and values are built from , : [ ] { } \" \\ runs of spaces, \", \" \": \" sequences, escapes, non-ASCII and non-BMP characters, numbers, nested and empty containers) \
                x {NoSD, TopLevel, AllLevels, Custom} x {compact, JSON} x {HS256, EdDSA, ES256} x decoys (1/4) x salt queues of base64url-alphabet strings (pairwise distinct, or with repeated salts over claim sets with twin subtrees: then only the issuance clauses are judged when identical disclosures arise); deep chains of 30-60 containers now and then; every case is issued three times: \
                with an ample queue, then twice with the same queue of exactly (disclosures + 0..3) salts. non-trivial = at least one hidden string value contains one of , : [ \" \\ or two consecutive spaces; distinct by claims, strategy, queue and settings".into();
    if !cfg!(feature = "mock") {
        ctx.notes.push("this harness was built without the feature `mock` (sd-jwt-rs/mock_salts): C16 was not run; use ./check C16".into());
        return;
    }
    let mut cases = vec![];
    if let Some(path) = replay {
        cases.extend(case_from_replay(ctx, path));
    } else {
        for f in crate::props::corpus_flows("C16") {
            let mut args = f.issue;
            if args.queue.is_none() {
                let n = n_positions(&args.claims) + 2;
                args.queue = Some(gen_queue(&mut ctx.rng, n));
            }
            cases.push(Case { args, extra: 0 });
        }
        let n = ctx.tier.pick(140, 3400);
        for i in 0..n {
            let mut r = ctx.rng.fork(i as u64);
            cases.push(gen_case(&mut r, ctx.tier));
        }
    }
    let mut reqs = vec![];
    let mut execs = vec![];
    for c in &cases {
        ctx.evaluations += 1;
        describe(ctx, c);
        execs.push(execute(ctx, c, &mut reqs));
    }
    let resp = run_model(&reqs);
    for ex in &execs {
        judge(ctx, ex, &resp);
    }
    if let Some(c) = cases.last() {
        ctx.sample(c.json());
    }
    if cases.len() > 1 {
        ctx.sample(cases[cases.len() / 2].json());
    }
}

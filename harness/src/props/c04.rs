//! C04 — key binding is enforced whenever the verifier asks for it.

use crate::attack::*;
use crate::ctx::*;
use crate::flow::*;
use crate::gen::*;
use crate::imp::*;
use crate::keys::*;
use crate::rng::Rng;
use crate::tok::*;
use serde_json::{json, Value};

/// honest key-bound flows, each with a second credential issued by the same issuer key to the same holder key
/// (same format, same aud / nonce)
pub fn kb_pairs(ctx: &mut Ctx, n: usize, tag: u64) -> Vec<(Honest, Option<Honest>)> {
    let cfg = FlowCfg {
        tree: TreeCfg { max_depth: 3, max_fanout: 4, path_safe_names: false, plain: true },
        allow_custom: true,
        allow_kb: true,
        sel_density: 4,
    };
    let mut out = vec![];
    for i in 0..n {
        let mut r = ctx.rng.fork(tag + i as u64);
        // most bases should present two or more disclosures and leave some unselected (reordering / adding / removing apply)
        let want_rich = r.chance(3, 4);
        let mut best: Option<(Honest, Option<Honest>)> = None;
        for _ in 0..8 {
            let mut f = gen_flow(&mut r, &cfg);
            if f.kb.is_none() {
                let kb = gen_kb(&mut r);
                f.issue.holder = Some(kb.key);
                f.kb = Some(kb);
            }
            // both formats in equal numbers, whatever the seed
            f.issue.fmt = if i % 2 == 0 { Fmt::Compact } else { Fmt::Json };
            let mut g = gen_flow(&mut r, &cfg);
            g.issue.key = f.issue.key;
            g.issue.alg = f.issue.alg.clone();
            g.issue.fmt = f.issue.fmt;
            g.issue.holder = f.issue.holder;
            g.kb = f.kb.clone();
            let h = match honest(ctx, &f) {
                Some(h) if h.pres.kb.is_some() => h,
                _ => continue,
            };
            let rich = h.pres.disclosures.len() >= 2 && h.issued.disclosures.len() > h.pres.disclosures.len();
            if best.is_none() || rich {
                let o = honest(ctx, &g).filter(|o| o.pres.kb.is_some());
                best = Some((h, o));
            }
            if rich || !want_rich {
                break;
            }
        }
        match best {
            Some(b) => out.push(b),
            None => ctx.count("honest_flow_failed(skipped)"),
        }
    }
    out
}

struct Base<'a> {
    h: &'a Honest,
    aud: String,
    nonce: String,
}

impl<'a> Base<'a> {
    /// a presentation assembled by hand in the flow's format, verified with the given expectations
    fn mk(&self, name: &str, input: String, aud: Option<&str>, nonce: Option<&str>) -> Attack {
        let f = &self.h.flow;
        Attack {
            name: name.to_string(),
            args: VerifyArgs { input, fmt: f.issue.fmt, resolver: Resolver::always(f.issue.key), aud: aud.map(String::from), nonce: nonce.map(String::from) },
            expect: Expect::Reject,
            origin: json!({"flow": f.json(), "honest_presentation": self.h.pres_text}),
            nontrivial: true,
        }
    }
    fn asked(&self, name: &str, input: String) -> Attack {
        self.mk(name, input, Some(&self.aud), Some(&self.nonce))
    }
    /// the honest presentation with another KB-JWT
    fn with_kb(&self, name: &str, kb: String) -> Attack {
        let mut p = self.h.pres.clone();
        p.kb = Some(kb);
        self.asked(name, p.render(self.h.flow.issue.fmt))
    }
    /// the honest KB-JWT on other parts
    fn with_parts(&self, name: &str, jwt: &str, ds: Vec<String>) -> Attack {
        let p = Parts { jwt: jwt.to_string(), disclosures: ds, kb: self.h.pres.kb.clone() };
        self.asked(name, p.render(self.h.flow.issue.fmt))
    }
}

fn sd_hash_over(jwt: &str, ds: &[String]) -> String {
    hash(&Parts { jwt: jwt.to_string(), disclosures: ds.to_vec(), kb: None }.compact())
}

/// the attack list of the property on one honest key-bound presentation; the first element is the control
pub fn kb_attacks(r: &mut Rng, h: &Honest, other: Option<&Honest>, edits: usize, all_positions: bool) -> Vec<Attack> {
    let mut out = vec![];
    let f = &h.flow;
    let (k, kb) = match (&f.kb, &h.pres.kb) {
        (Some(k), Some(kb)) => (k, kb.clone()),
        _ => return out,
    };
    let fmt = f.issue.fmt;
    let b = Base { h, aud: k.aud.clone(), nonce: k.nonce.clone() };
    let holder = k.key;
    let seg: Vec<&str> = kb.split('.').collect();
    let (hdr, pl) = match (seg.first().and_then(|s| unb64_json(s)), seg.get(1).and_then(|s| unb64_json(s))) {
        (Some(h), Some(p)) if seg.len() == 3 => (h, p),
        _ => return out,
    };
    let alg = hdr.get("alg").and_then(Value::as_str).unwrap_or(holder.alg()).to_string();
    let jwt = &h.pres.jwt;
    let ds = &h.pres.disclosures;

    // controls: what the holder produced, and the same parts assembled by hand
    let mut c = b.asked("control", h.pres_text.clone());
    c.expect = Expect::Accept;
    out.push(c);
    if h.pres.render(fmt) != h.pres_text {
        let mut c = b.asked("control-reassembled", h.pres.render(fmt));
        c.expect = Expect::Accept;
        out.push(c);
    }
    // a holder-signed KB-JWT over the same header and payload (another signature value for ES256) is as good
    let mut c = b.with_kb("control-resigned-by-holder", sign_token(&hdr, &pl, holder, &alg));
    c.expect = Expect::Accept;
    out.push(c);

    // KB-JWT removed
    let mut bare = h.pres.clone();
    bare.kb = None;
    match fmt {
        Fmt::Compact => out.push(b.asked("kb-removed-compact-empty-last-part", bare.compact())),
        Fmt::Json => {
            out.push(b.asked("kb-removed-json-absent", bare.json_form(false, None)));
            out.push(b.asked("kb-removed-json-null", bare.json_form(true, None)));
            let mut e = h.pres.clone();
            e.kb = Some(String::new());
            out.push(b.asked("kb-removed-json-empty-string", e.json_form(false, None)));
        }
    }

    // single-character edits of the KB-JWT
    let idx: Vec<(usize, usize)> = if all_positions {
        (0..kb.len()).flat_map(|i| (0..3).map(move |kind| (i, kind))).collect()
    } else {
        (0..edits).map(|_| (r.below(kb.len()), r.below(3))).collect()
    };
    for (i, kind) in idx {
        let t = edit_at(r, &kb, i, kind);
        if t == kb || t.contains('~') {
            continue;
        }
        let part = match kb[..i].matches('.').count() { 0 => "header", 1 => "payload", _ => "signature" };
        out.push(b.with_kb(&format!("edit-{}-{}: position {}", ["subst", "delete", "insert"][kind], part, i), t));
    }

    // re-signed by other keys (same header and payload)
    out.push(b.with_kb("resigned-non-holder-key-same-family", sign_token(&hdr, &pl, other_key_same_family(holder), &alg)));
    let ik = f.issue.key;
    if ik.fam() == holder.fam() {
        out.push(b.with_kb("resigned-issuer-key", sign_token(&hdr, &pl, ik, &alg)));
    } else {
        let mut h2 = hdr.clone();
        h2["alg"] = json!(ik.alg());
        out.push(b.with_kb("resigned-issuer-key-other-family", sign_token(&h2, &pl, ik, ik.alg())));
    }
    out.push(b.with_kb("signature-stripped", format!("{}.{}.", seg[0], seg[1])));
    out.push(b.with_kb("signature-missing-part", format!("{}.{}", seg[0], seg[1])));
    if let Some(okb) = other.and_then(|o| o.pres.kb.as_ref()) {
        if let Some(osig) = okb.split('.').nth(2) {
            if osig != seg[2] {
                out.push(b.with_kb("signature-of-another-kb-jwt", format!("{}.{}.{}", seg[0], seg[1], osig)));
            }
        }
    }

    // header typ absent or different, properly signed by the holder key
    let typs: [(&str, Option<Value>); 11] = [
        ("typ-absent", None),
        ("typ-null", Some(Value::Null)),
        ("typ-jwt", Some(json!("jwt"))),
        ("typ-JWT", Some(json!("JWT"))),
        ("typ-sd+jwt", Some(json!("sd+jwt"))),
        ("typ-trailing-space", Some(json!("kb+jwt "))),
        ("typ-empty", Some(json!(""))),
        ("typ-as-media-type", Some(json!("application/kb+jwt"))),
        ("typ-uppercase", Some(json!("KB+JWT"))),
        ("typ-leading-space", Some(json!(" kb+jwt"))),
        ("typ-with-parameter", Some(json!("kb+jwt; charset=utf-8"))),
    ];
    for (name, t) in typs {
        let mut h2 = hdr.clone();
        if let Some(m) = h2.as_object_mut() {
            m.remove("typ");
            if let Some(t) = t {
                m.insert("typ".into(), t);
            }
        }
        out.push(b.with_kb(name, sign_token(&h2, &pl, holder, &alg)));
    }

    // payload claims absent or different, properly signed by the holder key
    let mut payloads: Vec<(&str, Value, bool)> = vec![]; // (name, payload, assert rejection)
    let edit = |name: &'static str, key: &str, v: Option<Value>, assert: bool, acc: &mut Vec<(&'static str, Value, bool)>| {
        let mut p = pl.clone();
        if let Some(m) = p.as_object_mut() {
            m.remove(key);
            if let Some(v) = v {
                m.insert(key.into(), v);
            }
        }
        if p != pl {
            acc.push((name, p, assert));
        }
    };
    edit("nonce-absent", "nonce", None, true, &mut payloads);
    edit("nonce-null", "nonce", Some(Value::Null), true, &mut payloads);
    edit("nonce-different-suffix", "nonce", Some(json!(format!("{}x", k.nonce))), true, &mut payloads);
    edit("nonce-different-prefix-only", "nonce", Some(json!(k.nonce.chars().take(k.nonce.chars().count() / 2).collect::<String>())), true, &mut payloads);
    edit("nonce-is-the-aud", "nonce", Some(json!(k.aud)), true, &mut payloads);
    edit("nonce-in-an-array(not asserted)", "nonce", Some(json!([k.nonce])), false, &mut payloads);
    edit("aud-absent", "aud", None, true, &mut payloads);
    edit("aud-null", "aud", Some(Value::Null), true, &mut payloads);
    edit("aud-different-suffix", "aud", Some(json!(format!("{}/", k.aud))), true, &mut payloads);
    edit("aud-is-the-nonce", "aud", Some(json!(k.nonce)), true, &mut payloads);
    edit("aud-array-of-others", "aud", Some(json!([format!("{}x", k.aud), "https://other.example"])), true, &mut payloads);
    edit("sd_hash-absent", "sd_hash", None, true, &mut payloads);
    edit("sd_hash-null", "sd_hash", Some(Value::Null), true, &mut payloads);
    edit("sd_hash-wrong-value", "sd_hash", Some(json!(hash("some other presentation"))), true, &mut payloads);
    edit("sd_hash-empty", "sd_hash", Some(json!("")), true, &mut payloads);
    let right = sd_hash_over(jwt, ds);
    // the right digest followed or preceded by more, a proper prefix of it, other digest lengths
    edit("sd_hash-right-digest-plus-one-character", "sd_hash", Some(json!(format!("{}A", right))), true, &mut payloads);
    edit("sd_hash-right-digest-padded", "sd_hash", Some(json!(format!("{}=", right))), true, &mut payloads);
    edit("sd_hash-right-digest-twice", "sd_hash", Some(json!(format!("{}{}", right, right))), true, &mut payloads);
    edit("sd_hash-proper-prefix", "sd_hash", Some(json!(right[..right.len() / 2].to_string())), true, &mut payloads);
    edit("sd_hash-all-but-last-character", "sd_hash", Some(json!(right[..right.len() - 1].to_string())), true, &mut payloads);
    edit("sd_hash-hex-length", "sd_hash", Some(json!("ab".repeat(32))), true, &mut payloads);
    edit("sd_hash-sha512-length", "sd_hash", Some(json!("Q".repeat(86))), true, &mut payloads);
    edit("sd_hash-in-an-array(not asserted)", "sd_hash", Some(json!([right])), false, &mut payloads);
    let mut other_lists: Vec<(&'static str, String)> = vec![
        ("sd_hash-over-all-issued-disclosures", sd_hash_over(jwt, &h.issued.disclosures)),
        ("sd_hash-over-no-disclosures", sd_hash_over(jwt, &[])),
        ("sd_hash-over-reversed-disclosures", sd_hash_over(jwt, &ds.iter().rev().cloned().collect::<Vec<_>>())),
        ("sd_hash-over-the-jwt-alone", hash(jwt)),
        ("sd_hash-without-trailing-separator", hash(Parts { jwt: jwt.clone(), disclosures: ds.clone(), kb: None }.compact().trim_end_matches('~'))),
        ("sd_hash-over-disclosures-without-jwt", hash(&format!("{}~", ds.join("~")))),
    ];
    if !ds.is_empty() {
        other_lists.push(("sd_hash-over-one-disclosure-fewer", sd_hash_over(jwt, &ds[..ds.len() - 1])));
    }
    if let Some(o) = other {
        other_lists.push(("sd_hash-of-another-credential", sd_hash_over(&o.pres.jwt, &o.pres.disclosures)));
    }
    for (name, v) in other_lists {
        if v != right {
            edit(name, "sd_hash", Some(json!(v)), true, &mut payloads);
        }
    }
    for (name, p, assert) in payloads {
        let mut a = b.with_kb(name, sign_token(&hdr, &p, holder, &alg));
        if !assert {
            a.expect = Expect::Free;
        }
        out.push(a);
    }

    // the honest KB-JWT replayed onto other disclosure sequences / another credential
    let unselected: Vec<&String> = h.issued.disclosures.iter().filter(|d| !ds.contains(d)).collect();
    if !unselected.is_empty() {
        let extra = (*r.pick(&unselected)).clone();
        let mut l = ds.clone();
        l.push(extra.clone());
        out.push(b.with_parts("replay-one-more-genuine-disclosure-appended", jwt, l));
        let mut l = ds.clone();
        l.insert(r.below(ds.len() + 1), extra);
        if l != *ds {
            out.push(b.with_parts("replay-one-more-genuine-disclosure-inserted", jwt, l));
        }
        let mut l = ds.clone();
        l.extend(unselected.iter().map(|d| (*d).clone()));
        out.push(b.with_parts("replay-all-unselected-disclosures-added", jwt, l));
    }
    // JSON form: the withheld disclosures (or anything else) offered in members the envelope does not define — an unprotected
    // "header", a second list, another spelling: unknown members release nothing; the verified claims stay those of the
    // presentation the KB-JWT covers
    if fmt == Fmt::Json && !unselected.is_empty() {
        if let Outcome::Ok(honest_claims) = verify(&f.verify_args(&h.pres_text)).out {
            let withheld: Vec<String> = unselected.iter().map(|d| (*d).clone()).collect();
            let p = Parts { jwt: jwt.to_string(), disclosures: ds.clone(), kb: h.pres.kb.clone() };
            for (mname, mval) in [("header", json!({"disclosures": withheld, "kb_jwt": h.pres.kb})), ("unprotected", json!({"disclosures": withheld})), ("disclosures2", json!(withheld)), ("Disclosures", json!(withheld)),
                                  ("more_disclosures", json!(withheld)), ("_disclosures", json!(withheld)), ("sd", json!({"disclosures": withheld}))] {
                let mut a = b.asked(&format!("withheld-disclosures-in-an-undefined-member-{}", mname), p.json_form(false, Some((mname, mval))));
                a.expect = Expect::AcceptWith(honest_claims.clone());
                out.push(a);
            }
        }
    }
    {
        let forged = b64_json(&json!([b64(&r.next().to_le_bytes()), "admin", true]));
        let mut l = ds.clone();
        l.insert(r.below(ds.len() + 1), forged);
        out.push(b.with_parts("replay-one-more-forged-disclosure", jwt, l));
    }
    // a presented disclosure re-spelled (padding appended, a blank appended): not the sequence the sd_hash covers
    if !ds.is_empty() {
        for (name, suffix) in [("padded", "="), ("double-padded", "=="), ("blank-appended", " ")] {
            let mut l = ds.clone();
            let i = r.below(l.len());
            l[i] = format!("{}{}", l[i], suffix);
            out.push(b.with_parts(&format!("replay-one-disclosure-{}", name), jwt, l));
        }
    }
    // no disclosure at all but one empty entry (compact: jwt~~kb)
    out.push(b.with_parts("replay-only-an-empty-entry", jwt, vec![String::new()]));
    // an EMPTY entry added to the disclosure sequence (compact: a doubled `~`; JSON: an empty string): the sequence presented is
    // no longer the one the KB-JWT's sd_hash covers
    for (name, at) in [("front", 0usize), ("back", ds.len()), ("middle", ds.len() / 2)] {
        let mut l = ds.clone();
        l.insert(at.min(l.len()), String::new());
        out.push(b.with_parts(&format!("replay-empty-entry-added-{}", name), jwt, l));
    }
    {
        let mut l = ds.clone();
        l.insert(0, String::new());
        l.push(String::new());
        l.push(String::new());
        out.push(b.with_parts("replay-several-empty-entries-added", jwt, l));
    }
    if !ds.is_empty() {
        let mut l = ds.clone();
        l.remove(r.below(ds.len()));
        out.push(b.with_parts("replay-one-disclosure-fewer", jwt, l));
        out.push(b.with_parts("replay-no-disclosures", jwt, vec![]));
    }
    if ds.len() >= 2 {
        let mut l = ds.clone();
        l.reverse();
        if l != *ds {
            out.push(b.with_parts("replay-disclosures-reversed", jwt, l));
        }
        let mut l = ds.clone();
        let i = r.below(ds.len() - 1);
        l.swap(i, i + 1);
        if l != *ds {
            out.push(b.with_parts("replay-two-disclosures-swapped", jwt, l));
        }
    }
    if let Some(o) = other {
        if o.pres.jwt != *jwt {
            out.push(b.with_parts("replay-onto-another-credential", &o.pres.jwt, o.pres.disclosures.clone()));
            out.push(b.with_parts("replay-onto-another-credential-all-disclosures", &o.issued.jwt, o.issued.disclosures.clone()));
            out.push(b.with_parts("replay-onto-another-credential-same-disclosures", &o.pres.jwt, ds.clone()));
        }
    }

    // algorithm of another family in the KB-JWT header
    {
        let mut h2 = hdr.clone();
        h2["alg"] = json!("HS256");
        out.push(b.with_kb("alg-hs256-signed-with-an-hmac-key", sign_token(&h2, &pl, KeyId::Hmac1, "HS256")));
        // HS256 keyed with public material of the holder key (algorithm confusion)
        let jwk = holder.jwk_json().unwrap_or(Value::Null);
        let msg = format!("{}.{}", b64_json(&h2), b64_json(&pl));
        for (name, secret) in [
            ("alg-hs256-keyed-with-the-public-jwk-text", serde_json::to_string(&jwk).unwrap().into_bytes()),
            ("alg-hs256-keyed-with-the-public-x-coordinate", jwk.get("x").and_then(Value::as_str).and_then(unb64).unwrap_or_default()),
        ] {
            if let Ok(sig) = jsonwebtoken::crypto::sign(msg.as_bytes(), &jsonwebtoken::EncodingKey::from_secret(&secret), jsonwebtoken::Algorithm::HS256) {
                out.push(b.with_kb(name, format!("{}.{}", msg, sig)));
            }
        }
        let (okey, oalg) = if holder.fam() == Fam::Ec { (KeyId::HolderEd, "EdDSA") } else { (KeyId::HolderEc, "ES256") };
        let mut h3 = hdr.clone();
        h3["alg"] = json!(oalg);
        out.push(b.with_kb("alg-of-the-other-holder-key-family", sign_token(&h3, &pl, okey, oalg)));
        let mut h4 = hdr.clone();
        h4["alg"] = json!("none");
        out.push(b.with_kb("alg-none-unsigned", format!("{}.{}.", b64_json(&h4), b64_json(&pl))));
        let mut h5 = hdr.clone();
        h5.as_object_mut().map(|m| m.remove("alg"));
        // everything the property asks of a KB-JWT holds here except that the header does not name the algorithm: not asserted
        let mut a = b.with_kb("alg-absent(not asserted)", sign_token(&h5, &pl, holder, &alg));
        a.expect = Expect::Free;
        out.push(a);
    }

    // the verifier expects something else, or gives only one of aud / nonce
    let aud2 = format!("{}x", k.aud);
    let nonce2 = format!("{}x", k.nonce);
    out.push(b.mk("verifier-expects-another-aud", h.pres_text.clone(), Some(&aud2), Some(&k.nonce)));
    out.push(b.mk("verifier-expects-another-nonce", h.pres_text.clone(), Some(&k.aud), Some(&nonce2)));
    out.push(b.mk("verifier-expects-another-aud-and-nonce", h.pres_text.clone(), Some(&aud2), Some(&nonce2)));
    // values of the SAME length and the SAME characters in another order, or differing in case, in one character, by a
    // prefix / suffix: comparisons that are not exact string equality (folded, truncated, order-insensitive) accept these
    for (what, orig) in [("nonce", k.nonce.clone()), ("aud", k.aud.clone())] {
        let cs: Vec<char> = orig.chars().collect();
        let mut variants: Vec<(String, String)> = vec![];
        if cs.len() >= 2 {
            let mut rev = cs.clone();
            rev.reverse();
            variants.push(("reversed".into(), rev.iter().collect()));
            let mut sw = cs.clone();
            sw.swap(0, cs.len() - 1);
            variants.push(("first-and-last-swapped".into(), sw.iter().collect()));
            let mut rot = cs.clone();
            rot.rotate_left(1);
            variants.push(("rotated".into(), rot.iter().collect()));
            let (i, j) = (r.below(cs.len()), r.below(cs.len()));
            let mut sw2 = cs.clone();
            sw2.swap(i, j);
            variants.push(("two-positions-swapped".into(), sw2.iter().collect()));
            variants.push(("truncated".into(), cs[..cs.len() - 1].iter().collect()));
            // two characters changed by the same bit pattern (XOR-accumulating comparisons cancel)
            let mut x = cs.clone();
            let flip = |c: char| char::from_u32((c as u32) ^ 1).unwrap_or(c);
            x[0] = flip(x[0]);
            x[cs.len() - 1] = flip(x[cs.len() - 1]);
            variants.push(("two-characters-flipped-alike".into(), x.iter().collect()));
        }
        variants.push(("uppercased".into(), orig.to_uppercase()));
        variants.push(("lowercased".into(), orig.to_lowercase()));
        variants.push(("extended".into(), format!("{}x", orig)));
        variants.push(("trailing-blank".into(), format!("{} ", orig)));
        for (vn, v) in variants {
            if v == orig {
                continue;
            }
            if what == "nonce" {
                out.push(b.mk(&format!("verifier-expects-nonce-{}", vn), h.pres_text.clone(), Some(&k.aud), Some(&v)));
            } else {
                out.push(b.mk(&format!("verifier-expects-aud-{}", vn), h.pres_text.clone(), Some(&v), Some(&k.nonce)));
            }
        }
    }
    if k.aud != k.nonce {
        out.push(b.mk("verifier-expects-aud-and-nonce-swapped", h.pres_text.clone(), Some(&k.nonce), Some(&k.aud)));
    }
    if !k.aud.is_empty() {
        out.push(b.mk("verifier-expects-empty-aud", h.pres_text.clone(), Some(""), Some(&k.nonce)));
    }
    if !k.nonce.is_empty() {
        out.push(b.mk("verifier-expects-empty-nonce", h.pres_text.clone(), Some(&k.aud), Some("")));
    }
    out.push(b.mk("verifier-gives-only-aud", h.pres_text.clone(), Some(&k.aud), None));
    out.push(b.mk("verifier-gives-only-nonce", h.pres_text.clone(), None, Some(&k.nonce)));

    // an edit that happens to reproduce the honest text is no attack
    out.retain(|a| a.name.starts_with("control") || a.name.starts_with("verifier") || a.args.input != h.pres_text);
    out
}

pub fn run(ctx: &mut Ctx, replay: Option<&str>) {
    ctx.rule = "honest key-bound presentations (holder key ES256 / EdDSA, three issuer algorithms, both formats, arbitrary aud / nonce strings) x attacks: KB-JWT removed (compact: empty last part; JSON: absent, null, empty), \
                single-character substitution / deletion / insertion of the KB-JWT (quick: sampled positions; thorough: every position for a part of the flows), re-signed by a non-holder key and by the issuer key, signature stripped / swapped, \
                typ absent / different, nonce / aud absent / different, sd_hash absent / wrong / over another disclosure list, honest KB-JWT replayed onto one disclosure more / fewer / reordered / another credential of the same holder key, \
                alg of another family (HS256 with an HMAC key or public key material, other curve, none, absent), verifier expecting another aud / nonce or giving only one of them; all must be rejected, controls must be accepted; \
                non-trivial = every attack (distinct by input and expected aud / nonce)".into();
    if let Some(path) = replay {
        match attack_from_replay(path) {
            Some(a) => run_attacks(ctx, &[a]),
            None => ctx.notes.push("replay file holds no verifier case".into()),
        }
        return;
    }
    let n = ctx.tier.pick(10, 60);
    let pairs = kb_pairs(ctx, n, 1000);
    let mut attacks = vec![];
    for (i, (h, o)) in pairs.iter().enumerate() {
        let mut r = ctx.rng.fork(5000 + i as u64);
        let all = ctx.tier == Tier::Thorough && i < 12;
        let list = kb_attacks(&mut r, h, o.as_ref(), 16, all);
        ctx.count(&format!("base.fmt.{}.issuer_alg.{}.holder_alg.{}", h.flow.issue.fmt.name(), h.flow.issue.key.alg(), h.flow.kb.as_ref().map(|k| k.key.alg()).unwrap_or("?")));
        ctx.count(&format!("base.disclosures.{}", match h.pres.disclosures.len() { 0 => "0", 1 => "1", _ => "2+" }));
        attacks.extend(list);
    }
    // honest key-bound presentations made by a holder instance that has presented before (other selections, with and without key
    // binding, a failing call): the last presentation of each history must be accepted like any other
    {
        let cfg = FlowCfg { tree: TreeCfg { max_depth: 3, max_fanout: 4, path_safe_names: false, plain: true }, allow_custom: true, allow_kb: true, sel_density: 3 };
        for i in 0..ctx.tier.pick(16, 120) {
            let mut r = ctx.rng.fork(77_000 + i as u64);
            let mut f = gen_flow(&mut r, &cfg);
            let kb = gen_kb(&mut r);
            f.issue.holder = Some(kb.key);
            f.kb = Some(kb.clone());
            f.issue.fmt = if i % 2 == 0 { Fmt::Compact } else { Fmt::Json };
            let issued = match issue(&f.issue).out.ok() {
                Some(s) => s.clone(),
                None => continue,
            };
            ctx.impl_calls += 1;
            let own = f.present_args();
            let other_sel = |r: &mut Rng| gen_selection(r, &f.issue.claims, 3).as_object().cloned().unwrap_or_default();
            let kb_with = |sel: serde_json::Map<String, Value>, nonce: &str| PresentArgs { sel, nonce: Some(nonce.to_string()), aud: Some("https://earlier-verifier.example".into()), key: Some(kb.key), alg: kb.alg.clone() };
            let x = other_sel(&mut r);
            let history: Vec<PresentArgs> = match i % 6 {
                0 => vec![kb_with(x, "n-earlier"), PresentArgs::plain(own.sel.clone()), own.clone()],
                1 => vec![PresentArgs::plain(own.sel.clone()), own.clone()],
                2 => vec![own.clone(), own.clone()],
                3 => vec![kb_with(x, "n-earlier"), PresentArgs { sel: own.sel.clone(), nonce: Some("n".into()), aud: None, key: None, alg: None }, own.clone()],
                4 => vec![kb_with(own.sel.clone(), "n-earlier"), PresentArgs::plain(x), kb_with(own.sel.clone(), "n-middle"), own.clone()],
                _ => vec![kb_with(x.clone(), "n-earlier"), kb_with(reorder_members(&mut r, &Value::Object(x), true).as_object().cloned().unwrap_or_default(), "n-earlier-2"), PresentArgs::plain(Default::default()), own.clone()],
            };
            let h = holder_session(&issued, f.issue.fmt, &history);
            ctx.impl_calls += history.len();
            if let Some(Outcome::Ok(p)) = h.calls.last().map(|c| c.out.clone()) {
                attacks.push(Attack { name: format!("control-presentation-from-a-holder-with-history: pattern {}", i % 6), args: f.verify_args(&p), expect: Expect::Accept,
                                      origin: json!({"flow": f.json(), "holder_history": history.iter().map(|c| c.json()).collect::<Vec<_>>()}), nontrivial: true });
            } else {
                ctx.count("holder_with_history.no_presentation(C06/C11 judge the holder)");
            }
        }
    }
    attacks.extend(spelling_matrix(ctx));
    long_presentations(ctx);
    set_patience(0);
    for chunk in attacks.chunks(4000) {
        let outs = run_attacks_out(ctx, chunk);
        for (a, o) in chunk.iter().zip(&outs) {
            if matches!(a.expect, Expect::Free) {
                ctx.count(&format!("not_asserted.{}", o.class()));
            }
        }
    }
    for pick in ["replay-onto-another-credential", "sd_hash-over-all-issued-disclosures", "typ-absent"] {
        if let Some(a) = attacks.iter().find(|a| a.name.starts_with(pick)) {
            ctx.sample(json!({"attack": a.name, "fmt": a.args.fmt.name(), "input": a.args.input, "aud": a.args.aud, "nonce": a.args.nonce}));
        }
    }
}

/// hand-signed key-bound presentation of a small credential
fn hand_kb(fmt: Fmt, holder: KeyId, claims_extra: Value, disclosures: &[String], kb_aud: &Value, kb_nonce: &Value) -> (String, String) {
    let mut payload = json!({"iss": "https://issuer.example", "exp": now() + 100000, "_sd_alg": "sha-256", "cnf": {"jwk": holder.jwk_json().unwrap()}, "_sd": disclosures.iter().map(|d| hash(d)).collect::<Vec<_>>()});
    if let (Some(m), Some(e)) = (payload.as_object_mut(), claims_extra.as_object()) {
        for (k, v) in e {
            m.insert(k.clone(), v.clone());
        }
    }
    let jwt = sign_payload(&payload, KeyId::IssuerEc);
    let sd_hash = hash(&Parts { jwt: jwt.clone(), disclosures: disclosures.to_vec(), kb: None }.compact());
    let kb = sign_token(&json!({"alg": holder.alg(), "typ": "kb+jwt"}), &json!({"nonce": kb_nonce, "aud": kb_aud, "iat": now(), "sd_hash": sd_hash}), holder, holder.alg());
    (Parts { jwt: jwt.clone(), disclosures: disclosures.to_vec(), kb: Some(kb.clone()) }.render(fmt), kb)
}

/// the verifier's expected audience / nonce against the KB-JWT's, over a family of near spellings in BOTH directions: accepted
/// exactly on the diagonal
fn spelling_matrix(ctx: &mut Ctx) -> Vec<Attack> {
    let auds = ["https://verifier.example.org", "https://verifier.example.org/", "https://verifier.example.org//", "https://VERIFIER.example.org", "HTTPS://verifier.example.org", "https://verifier.example.org:443",
                "https://verifier.example.org/#", "https://verifier.example.org/?", "https://verifier.example.org.", " https://verifier.example.org", "https://verifier.example.org ", "http://verifier.example.org",
                "verifier.example.org", "https://verifier.example.org/a/..", "https://verifier.example.org/%2F", "did:web:verifier.example.org", "did:web:verifier.example.org/", "urn:v:1", "urn:v:1/", "x", "x/", "", "/"];
    let nonces = ["n-0123456789", "n-0123456789 ", "N-0123456789", "n-0123456789\n", "n-012345678", "n-01234567890", "", " ", "0", "00", "n-0123456789/", "n\u{2010}0123456789", "1234", "1234.0", "null"];
    let long_a = format!("https://verifier.example.org/callback?state={}", "s".repeat(1700));
    let long_b = format!("{}x", &long_a[..long_a.len() - 1]);
    let long_c = "n".repeat(5000);
    let mut auds: Vec<&str> = auds.to_vec();
    auds.extend([long_a.as_str(), long_b.as_str(), long_c.as_str()]);
    let mut nonces: Vec<&str> = nonces.to_vec();
    nonces.extend([long_a.as_str(), long_b.as_str(), long_c.as_str()]);
    let mut out = vec![];
    let d = b64_json(&json!(["c2FsdC1mb3ItbWF0cml4", "given_name", "Erika"]));
    let every = ctx.tier == Tier::Thorough;
    let mut k = 0usize;
    for (what, list) in [("aud", &auds[..]), ("nonce", &nonces[..])] {
        for (i, x) in list.iter().enumerate() {
            for (j, y) in list.iter().enumerate() {
                k += 1;
                // quick: the diagonal, the neighbours and a rotating sample of the rest
                if !every && i != j && (i as i64 - j as i64).abs() != 1 && (i * 7 + j * 3 + ctx.seed as usize) % 5 != 0 {
                    continue;
                }
                let fmt = if k % 2 == 0 { Fmt::Compact } else { Fmt::Json };
                let holder = if k % 3 == 0 { KeyId::HolderEd } else { KeyId::HolderEc };
                let (kb_aud, kb_nonce, exp_aud, exp_nonce) = if what == "aud" { (json!(y), json!("n-fixed"), x.to_string(), "n-fixed".to_string()) } else { (json!("https://verifier.example.org"), json!(y), "https://verifier.example.org".to_string(), x.to_string()) };
                let (input, _) = hand_kb(fmt, holder, json!({"sub": "s"}), &[d.clone()], &kb_aud, &kb_nonce);
                out.push(Attack { name: format!("{}-spelling-{}: expected {:?} presented {:?}", what, if x == y { "same" } else { "differs" }, x, y),
                                  args: VerifyArgs { input, fmt, resolver: Resolver::always(KeyId::IssuerEc), aud: Some(exp_aud), nonce: Some(exp_nonce) },
                                  expect: if x == y { Expect::Accept } else { Expect::Reject }, origin: json!({"hand_built": "spelling matrix", "what": what, "expected": x, "presented": y}), nontrivial: true });
            }
        }
    }
    ctx.count_n("spelling_matrix.cases", out.len());
    out
}

/// key binding over LONG presentations (a large visible claim, large disclosures, many disclosures): the KB-JWT made for one
/// disclosure list replayed with one more / one fewer / reordered / altered at the very end. Judged on the implementation alone
fn long_presentations(ctx: &mut Ctx) {
    set_patience(240);
    let sizes: Vec<(usize, usize, usize)> = if ctx.tier == Tier::Quick { vec![(70_000, 40, 3), (10, 70_000, 3), (10, 30, 2500), (10, 10, 9000), (300_000, 300_000, 5)] } else { vec![(70_000, 40, 3), (10, 70_000, 3), (10, 30, 2500), (300_000, 300_000, 5), (66_000, 10, 1), (2_000_000, 10, 4), (10, 10, 20_000)] };
    for (si, (visible_len, value_len, n_disc)) in sizes.into_iter().enumerate() {
        let fmt = if si % 2 == 0 { Fmt::Compact } else { Fmt::Json };
        let holder = if si % 2 == 0 { KeyId::HolderEc } else { KeyId::HolderEd };
        let all: Vec<String> = (0..n_disc + 1).map(|k| b64_json(&json!([format!("c2FsdC1sb25n{}", k), format!("claim{}", k), "v".repeat(value_len) + &k.to_string()]))).collect();
        let shown: Vec<String> = all[..n_disc].to_vec();
        let extra = json!({"portrait": "P".repeat(visible_len)});
        // the payload lists every digest, the presentation shows all but the last disclosure
        let mut payload = json!({"iss": "https://issuer.example", "exp": now() + 100000, "_sd_alg": "sha-256", "cnf": {"jwk": holder.jwk_json().unwrap()}, "_sd": all.iter().map(|d| hash(d)).collect::<Vec<_>>()});
        payload["portrait"] = extra["portrait"].clone();
        let jwt = sign_payload(&payload, KeyId::IssuerEc);
        let sd_hash = hash(&Parts { jwt: jwt.clone(), disclosures: shown.clone(), kb: None }.compact());
        let kb = sign_token(&json!({"alg": holder.alg(), "typ": "kb+jwt"}), &json!({"nonce": "n-1", "aud": "https://verifier.example", "iat": now(), "sd_hash": sd_hash}), holder, holder.alg());
        let mut variants: Vec<(&str, Vec<String>, bool)> = vec![("control-as-bound", shown.clone(), true), ("one-more-at-the-end", all.clone(), false), ("one-fewer-at-the-end", shown[..n_disc - 1].to_vec(), false)];
        if n_disc >= 2 {
            let mut sw = shown.clone();
            sw.swap(n_disc - 1, n_disc - 2);
            variants.push(("last-two-swapped", sw, false));
            let mut sw = shown.clone();
            sw.swap(0, 1);
            variants.push(("first-two-swapped", sw, false));
            let mut rep = shown.clone();
            rep[n_disc - 1] = all[n_disc].clone();
            variants.push(("last-replaced-by-the-withheld-one", rep, false));
        }
        for (name, ds, ok) in variants {
            let input = Parts { jwt: jwt.clone(), disclosures: ds, kb: Some(kb.clone()) }.render(fmt);
            let r = verify(&VerifyArgs { input: input.clone(), fmt, resolver: Resolver::always(KeyId::IssuerEc), aud: Some("https://verifier.example".into()), nonce: Some("n-1".into()) });
            ctx.impl_calls += 1;
            ctx.evaluations += 1;
            ctx.oracle_checks += 1;
            ctx.count(&format!("case.long-presentation-{}", name));
            let case = json!({"long_presentation": {"visible_claim_bytes": visible_len, "disclosed_value_bytes": value_len, "disclosures_bound": n_disc, "variant": name, "fmt": fmt.name(), "input_bytes": input.len(), "input_sha256": hash(&input)}});
            match (&r.out, ok) {
                (Outcome::Ok(_), true) | (Outcome::Err(_), false) => ctx.nontrivial(&case),
                (Outcome::Ok(_), false) => ctx.violation("oracle", "verify", &format!("a key-binding JWT made for another disclosure list was accepted on a long presentation ({})", name), case, r.out.class().into(), json!("Err")),
                (Outcome::Err(_), true) => ctx.violation("oracle", "verify", "an honest key-bound long presentation was rejected", case, r.out.describe(), json!("Ok")),
                (Outcome::Timeout, _) => {
                    // the duplicate-digest scan of the verifier is quadratic in the number of digests: at these sizes a slow answer is
                    // no hang (C07 judges termination on inputs of a few KB)
                    ctx.count("long_presentation.no_answer_within_the_watchdog(not judged)");
                }
                _ => ctx.violation("oracle", "verify", "the verifier panicked on a long presentation", case, r.out.describe(), json!("Ok or Err")),
            }
        }
    }
}

//! C12 — decoy digests are present when asked, inert, and indistinguishable.

use crate::attack::sign_payload;
use crate::ctx::*;
use crate::flow::*;
use crate::gen::*;
use crate::imp::*;
use crate::model::run_model;
use crate::props::c05::{hidden_set, locate, spec_annotate_request};
use crate::tok::*;
use serde_json::{json, Value};
use std::collections::HashSet;

fn digest_form(d: &str) -> bool {
    d.len() == 43 && d.bytes().all(|b| b.is_ascii_alphanumeric() || b == b'-' || b == b'_')
}

pub fn run(ctx: &mut Ctx, replay: Option<&str>) {
    ctx.rule = "claims x strategy (objects with 0 hidden members, objects in arrays and in hidden values) issued with decoys on AND off, same selection presented and verified in both; \
                per issuance: every object image has >= 1 unmatched digest (on) / none (off), decoys unique, distinct from real digests, 43 base64url characters, _sd lists equal the model's in exact order; \
                order-leak rule of the property over all _sd lists with >= 2 real digests; non-trivial = decoys on, >= 2 objects, >= 1 hidden claim; distinct by flow".into();
    let cfg = FlowCfg {
        tree: TreeCfg { max_depth: if ctx.tier == Tier::Quick { 4 } else { 6 }, max_fanout: 4, path_safe_names: false, plain: false },
        allow_custom: true,
        allow_kb: false,
        sel_density: 4,
    };
    let mut flows = vec![];
    if let Some(path) = replay {
        flows.extend(crate::props::flow_from_replay(path));
    } else {
        flows.extend(crate::props::corpus_flows("C12"));
        let n = ctx.tier.pick(300, 5000);
        for i in 0..n {
            let mut r = ctx.rng.fork(i as u64);
            flows.push(gen_flow(&mut r, &cfg));
        }
        for f in special_flows(&mut ctx.rng.fork(9_999_991), ctx.tier) {
            if !f.sel.is_empty() {
                flows.push(f);
                ctx.count("stream.special_claim_set");
            }
        }
        // credentials with nothing but the always-visible claims (and empty containers): the root object is an object like any other
        for (k, claims) in [json!({"iss": "https://issuer.example", "exp": now() + 100000}), json!({"iss": "https://issuer.example", "iat": now() - 3, "exp": now() + 100000}),
                            json!({"exp": now() + 100000, "iss": "https://issuer.example", "empty": {}, "none": []})].into_iter().enumerate() {
            for st in [Strategy::All, Strategy::Top, Strategy::None, Strategy::Custom(vec![]), Strategy::Custom(vec!["$.nothing".into()])] {
                flows.push(Flow { issue: IssueArgs { claims: claims.clone(), strategy: st, holder: None, decoy: true, fmt: if k % 2 == 0 { Fmt::Compact } else { Fmt::Json }, key: crate::keys::KeyId::IssuerEc, alg: None, queue: None },
                                  sel: Default::default(), kb: None });
                ctx.count("stream.only_always_visible_claims");
            }
        }
        // the holder's key arrives INSIDE the claims (a top-level cnf that the strategy leaves in clear, no holder key argument) and
        // the presentation is key-bound: decoys added to the cnf object and to the key object must leave key binding as it is
        for (k, holder) in [crate::keys::KeyId::HolderEc, crate::keys::KeyId::HolderEd, crate::keys::KeyId::HolderEc2].into_iter().enumerate() {
            for st in [Strategy::None, Strategy::Custom(vec!["$.given_name".into()]), Strategy::Custom(vec!["$.address.city".into(), "$.cnf.note".into()])] {
              for with_note in [true, false] {
                let mut claims = json!({"iss": "https://issuer.example", "exp": now() + 100000, "given_name": "Erika", "address": {"city": "K", "zip": "1"},
                                    "cnf": {"jwk": holder.jwk_json().unwrap(), "note": "user supplied"}});
                if !with_note {
                    claims["cnf"].as_object_mut().map(|m| m.remove("note"));
                }
                let st = st.clone();
                let sel = if with_note { json!({"given_name": true, "address": {"city": true}, "cnf": {"note": true}}) } else { json!({"given_name": true, "address": {"city": true}}) };
                flows.push(Flow { issue: IssueArgs { claims, strategy: st, holder: None, decoy: true, fmt: if k % 2 == 0 { Fmt::Compact } else { Fmt::Json }, key: crate::keys::KeyId::IssuerEc, alg: None, queue: None },
                                  sel: sel.as_object().cloned().unwrap(), kb: Some(KbSetting { key: holder, alg: Some(holder.alg().to_string()), nonce: "n-1".into(), aud: "https://verifier.example".into() }) });
                ctx.count("stream.user_cnf_with_key_binding");
              }
            }
        }
    }
    let mut reqs = vec![];
    let mut runs = vec![];
    for f in &flows {
        ctx.evaluations += 1;
        let mut on = f.clone();
        on.issue.decoy = true;
        let mut off = f.clone();
        off.issue.decoy = false;
        // every second pair is issued by ONE issuer instance, decoys on first and then off (the flag is an argument of the call,
        // not a property of the instance): the decoy-free issuance must carry no unmatched digest
        let (run_on, run_off) = if ctx.evaluations % 2 == 0 {
            match issue_sequence(on.issue.key, on.issue.alg.clone(), vec![on.issue.clone(), off.issue.clone()]) {
                Some(mut seq) if seq.len() == 2 => {
                    ctx.impl_calls += 2;
                    ctx.count("issuer.reused_instance(on then off)");
                    let second = seq.pop().unwrap();
                    let first = seq.pop().unwrap();
                    (run_flow_from(ctx, &on, first), run_flow_from(ctx, &off, second))
                }
                _ => (run_flow(ctx, &on), run_flow(ctx, &off)),
            }
        } else {
            (run_flow(ctx, &on), run_flow(ctx, &off))
        };
        let i = reqs.len();
        reqs.push(issue_request(i, &on.issue, &run_on.issue));
        reqs.push(issue_request(i + 1, &off.issue, &run_off.issue));
        reqs.push(spec_annotate_request(i + 2, &f.issue.claims, &f.issue.strategy));
        let mut vi = None;
        if let Some((va, vr)) = &run_on.ver {
            vi = Some(reqs.len());
            reqs.push(verify_request(reqs.len(), va, vr.t0));
            reqs.push(verify_request(reqs.len(), va, vr.t1));
        }
        runs.push((on, off, run_on, run_off, i, vi));
    }
    let resp = run_model(&reqs);
    let mut lists_total = 0usize;
    let mut lists_member_order = 0usize;
    let mut lists_decoys_last = 0usize;
    let mut lists_with_decoys = 0usize;
    let mut lists_total_off = 0usize;
    let mut lists_member_order_off = 0usize;
    // the same rule per class of lists (where the list sits x decoy setting): (lists, in member order, with decoys, decoys last)
    let mut classes: std::collections::BTreeMap<String, (usize, usize, usize, usize)> = std::collections::BTreeMap::new();
    for (on, off, run_on, run_off, i, vi) in &runs {
        cmp_issue(ctx, &on.issue, &run_on.issue, &resp[*i], true);
        cmp_issue(ctx, &off.issue, &run_off.issue, &resp[*i + 1], true);
        if let (Some(v), Some((va, vr))) = (vi, &run_on.ver) {
            cmp_verify(ctx, va, vr, &resp[*v], &resp[*v + 1]);
        }
        if resp[*i + 2].get("hidden").is_none() {
            ctx.skip_model("spec-answer-missing");
            continue;
        }
        ctx.oracle_checks += 1;
        let case = on.json();
        let hidden = hidden_set(&resp[*i + 2]);
        let (s_on, s_off) = match (run_on.issued(), run_off.issued()) {
            (Some(a), Some(b)) => (a, b),
            _ => {
                ctx.count("issue_failed(skipped; C01/C05 judge issuance)");
                continue;
            }
        };
        let (p_on, p_off) = match (split(on.issue.fmt, s_on), split(off.issue.fmt, s_off)) {
            (Some(a), Some(b)) => (a, b),
            _ => continue,
        };
        let l_on = locate(&on.issue.claims, &hidden, &p_on, on.issue.holder);
        let l_off = locate(&off.issue.claims, &hidden, &p_off, off.issue.holder);
        if !l_on.problems.is_empty() || !l_off.problems.is_empty() {
            ctx.count("issued_structure_unreadable(skipped; C05 judges it)");
            continue;
        }
        let mut problems = vec![];
        let real: HashSet<String> = p_on.disclosures.iter().map(|d| hash(d)).collect();
        let mut all_decoys = HashSet::new();
        for (p, ds) in &l_on.decoys {
            // the always-visible registered claims iss / iat / exp are copied as they are (like the cnf object the issuer adds): a
            // claim set that puts an OBJECT there is not what the property quantifies over (DESIGN.md §7, observation g)
            if matches!(p.first(), Some(Step::Key(k)) if ["iss", "iat", "exp"].contains(&k.as_str())) {
                ctx.count("object_inside_an_always_visible_registered_claim(not asserted)");
                continue;
            }
            if ds.is_empty() {
                problems.push(format!("decoys on: the object at {} carries no decoy digest", serde_json::to_string(&pos_json(p)).unwrap()));
            }
            for d in ds {
                if !digest_form(d) {
                    problems.push("a decoy digest does not have the form of a real digest".into());
                }
                if real.contains(d) {
                    problems.push("a decoy digest equals a real digest".into());
                }
                if !all_decoys.insert(d.clone()) {
                    problems.push("a decoy digest occurs twice in the credential".into());
                }
            }
        }
        for (p, ds) in &l_off.decoys {
            if !ds.is_empty() {
                problems.push(format!("decoys off: a digest at {} matches no issued disclosure", serde_json::to_string(&pos_json(p)).unwrap()));
            }
        }
        for d in &real {
            if !digest_form(d) {
                problems.push("a real digest is not 43 base64url characters".into());
            }
        }
        // inert: holder and verifier results identical to the decoy-free case
        let v_on = run_on.ver.as_ref().map(|x| x.1.out.clone());
        let v_off = run_off.ver.as_ref().map(|x| x.1.out.clone());
        let n_on = run_on.presentation().and_then(|p| split(on.issue.fmt, p)).map(|p| p.disclosures.len());
        let n_off = run_off.presentation().and_then(|p| split(off.issue.fmt, p)).map(|p| p.disclosures.len());
        let class = |h: &Option<HolderRes>| h.as_ref().map(|h| if h.new.is_ok() { h.calls[0].out.class() } else { h.new.class() });
        if class(&run_on.hold) != class(&run_off.hold) || n_on != n_off {
            problems.push("the holder's result with decoys differs from the decoy-free case".into());
        }
        match (&v_on, &v_off) {
            (Some(Outcome::Ok(a)), Some(Outcome::Ok(b))) => {
                if a != b {
                    problems.push("verified claims with decoys differ from the decoy-free case".into());
                }
            }
            (a, b) => {
                if a.as_ref().map(|x| x.class()) != b.as_ref().map(|x| x.class()) {
                    problems.push("the verifier's decision with decoys differs from the decoy-free case".into());
                }
            }
        }
        // order statistics
        for (decoys_on, loc) in [(true, &l_on), (false, &l_off)] {
            for (here, list, real_in_member_order) in &loc.sd_lists {
                if real_in_member_order.len() >= 2 {
                    let inside = (1..=here.len()).any(|n| hidden.contains(&here[..n].to_vec()));
                    let key = format!("{}.{}", if inside { "inside-disclosed-value" } else if here.is_empty() { "payload-top-level" } else { "payload-nested" }, if decoys_on { "decoys-on" } else { "decoys-off" });
                    let e = classes.entry(key).or_insert((0, 0, 0, 0));
                    e.0 += 1;
                    let reals_in_list: Vec<&String> = list.iter().filter(|d| real_in_member_order.contains(*d)).collect();
                    if reals_in_list.iter().map(|s| s.as_str()).eq(real_in_member_order.iter().map(|s| s.as_str())) {
                        e.1 += 1;
                    }
                    if list.len() > reals_in_list.len() {
                        e.2 += 1;
                        if list[..reals_in_list.len()].iter().all(|d| real_in_member_order.contains(d)) {
                            e.3 += 1;
                        }
                    }
                }
            }
        }
        for (_, list, real_in_member_order) in &l_on.sd_lists {
            if real_in_member_order.len() >= 2 {
                lists_total += 1;
                let reals_in_list: Vec<&String> = list.iter().filter(|d| real.contains(*d)).collect();
                if reals_in_list.iter().map(|s| s.as_str()).eq(real_in_member_order.iter().map(|s| s.as_str())) {
                    lists_member_order += 1;
                }
                let n_decoys = list.len() - reals_in_list.len();
                if n_decoys > 0 {
                    lists_with_decoys += 1;
                    if list[..reals_in_list.len()].iter().all(|d| real.contains(d)) {
                        lists_decoys_last += 1;
                    }
                }
            }
        }
        // the same statistic for the decoy-free issuance (the rule is judged per decoy setting)
        for (_, list, real_in_member_order) in &l_off.sd_lists {
            if real_in_member_order.len() >= 2 {
                lists_total_off += 1;
                if list.iter().map(|s| s.as_str()).eq(real_in_member_order.iter().map(|s| s.as_str())) {
                    lists_member_order_off += 1;
                }
            }
        }
        if !problems.is_empty() {
            ctx.violation("oracle", "issue", &problems[0].clone(), case, json!({"payload_with_decoys": p_on.payload(), "payload_without": p_off.payload(), "problems": problems}), json!("decoys present, unique, well-formed, inert"));
            continue;
        }
        if l_on.objects >= 2 && !hidden.is_empty() {
            ctx.nontrivial(&case);
        }
    }
    ctx.count_n("sd_lists_with_2+_real_digests", lists_total);
    ctx.count_n("sd_lists_in_member_order", lists_member_order);
    ctx.count_n("sd_lists_decoys_after_reals", lists_decoys_last);
    if lists_total >= 200 {
        ctx.oracle_checks += 1;
        if lists_member_order == lists_total {
            ctx.violation("oracle", "issue", "every _sd list lists the real digests in member order (order leak)", json!({"lists": lists_total}), json!({"in_member_order": lists_member_order}), json!("not all"));
        }
        if lists_with_decoys >= 200 && lists_decoys_last == lists_with_decoys {
            ctx.violation("oracle", "issue", "every _sd list lists the decoys after the real digests (order leak)", json!({"lists": lists_with_decoys}), json!({"decoys_last": lists_decoys_last}), json!("not all"));
        }
    } else {
        ctx.notes.push(format!("order-leak rule not evaluated: only {} _sd lists with >= 2 real digests (needs 200)", lists_total));
    }
    // a correct sort (or shuffle) puts k >= 2 real digests in member order with probability <= 1/2 per list: a class of >= 100
    // lists ALL in member order (or ALL with decoys last) has probability < 2^-100
    for (k, (n, inorder, withd, dlast)) in &classes {
        ctx.count_n(&format!("order_class.{}.lists", k), *n);
        ctx.count_n(&format!("order_class.{}.in_member_order", k), *inorder);
        if *n >= 100 {
            ctx.oracle_checks += 1;
            if inorder == n {
                ctx.violation("oracle", "issue", &format!("every _sd list of the class {} lists the real digests in member order (order leak)", k), json!({"class": k, "lists": n}), json!({"in_member_order": inorder}), json!("not all"));
            }
            if *withd >= 100 && dlast == withd {
                ctx.violation("oracle", "issue", &format!("every _sd list of the class {} lists the decoys after the real digests (order leak)", k), json!({"class": k, "lists": withd}), json!({"decoys_last": dlast}), json!("not all"));
            }
        }
    }
    ctx.count_n("decoys_off.sd_lists_with_2+_real_digests", lists_total_off);
    ctx.count_n("decoys_off.sd_lists_in_member_order", lists_member_order_off);
    if lists_total_off >= 200 {
        ctx.oracle_checks += 1;
        if lists_member_order_off == lists_total_off {
            ctx.violation("oracle", "issue", "decoys off: every _sd list lists the digests in member order (order leak)", json!({"lists": lists_total_off}), json!({"in_member_order": lists_member_order_off}), json!("not all"));
        }
    }
    if replay.is_none() {
        many_objects(ctx);
        set_patience(0);
        near_digest_decoys(ctx);
    }
    if let Some(f) = flows.last() {
        ctx.sample(f.json());
    }
}

/// the `_sd` list of every object image of an issued SD-JWT (payload and disclosed values); `{"...": d}` placeholders are not objects of the claims
fn object_images(v: &Value, out: &mut Vec<Vec<String>>) {
    match v {
        Value::Object(m) => {
            if m.len() == 1 && m.get("...").map_or(false, Value::is_string) {
                return;
            }
            out.push(m.get("_sd").and_then(Value::as_array).map(|a| a.iter().filter_map(|d| d.as_str().map(String::from)).collect()).unwrap_or_default());
            for (k, x) in m {
                if k != "_sd" {
                    object_images(x, out);
                }
            }
        }
        Value::Array(a) => a.iter().for_each(|x| object_images(x, out)),
        _ => {}
    }
}

fn many_object_claims(n: usize) -> Value {
    let list: Vec<Value> = (0..n).map(|i| if i % 3 == 0 { json!({"a": i, "b": {"c": i}}) } else { json!({"a": i}) }).collect();
    // objects with many members (more than any padding target of an _sd list), also inside a hidden value and inside an array;
    // long arrays that begin with scalars and carry objects further back
    let big = |n: usize, tag: &str| Value::Object((0..n).map(|i| (format!("{}{:03}", tag, i), if i % 40 == 7 { json!({"in": i}) } else { json!(i) })).collect());
    let mixed: Vec<Value> = (0..40).map(|i| match i { 11 | 29 | 39 => json!({"sensor": i, "cal": {"k": i}}), 20 => json!([{"deep": i}]), _ => if i % 2 == 0 { json!(i) } else { json!(format!("r{}", i)) } }).collect();
    json!({"iss": "https://issuer.example", "exp": crate::imp::now() + 100000, "list": list, "o": {"p": {"q": {}}},
           "big": big(130, "m"), "holder_of_big": {"inner": big(70, "n")}, "bigs_in_list": [big(66, "e"), 1, big(64, "f"), big(63, "g")], "readings": mixed})
}

/// credentials with very many objects, judged on the implementation alone (the extracted model is quadratic in the number of
/// disclosures): (a) decoys are inert for holder and verifier also when there are thousands of them; (b) an issuer instance
/// that has already handed out several hundred thousand decoys still gives every object its decoys
fn many_objects(ctx: &mut Ctx) {
    set_patience(240);
    use crate::keys::KeyId;
    // (a)
    for (wi, n) in (if ctx.tier == Tier::Quick { vec![1500usize] } else { vec![400, 1100, 1500, 3000] }).into_iter().enumerate() {
        let claims = many_object_claims(n);
        let fmt = if wi % 2 == 0 { Fmt::Compact } else { Fmt::Json };
        let mk = |decoy: bool| IssueArgs { claims: claims.clone(), strategy: Strategy::All, holder: None, decoy, fmt, key: KeyId::Hmac1, alg: Some("HS256".into()), queue: None };
        let case = json!({"many_objects": {"list_elements": n, "fmt": fmt.name(), "strategy": "all"}});
        let mut outs = vec![];
        for decoy in [true, false] {
            let a = mk(decoy);
            let issued = issue(&a);
            ctx.impl_calls += 1;
            let s = match issued.out.ok() {
                Some(s) => s.clone(),
                None => {
                    ctx.violation("oracle", "issue", "a credential with many objects was not issued", case.clone(), issued.out.describe(), json!("Ok"));
                    return;
                }
            };
            let sel = select_all(&claims).as_object().cloned().unwrap_or_default();
            let h = holder_session(&s, fmt, &[PresentArgs::plain(sel), PresentArgs::plain(Default::default())]);
            let pres: Vec<Option<String>> = h.calls.iter().map(|c| c.out.ok().cloned()).collect();
            let vers: Vec<Outcome<Value>> = pres.iter().map(|p| match p {
                Some(p) => verify(&VerifyArgs { input: p.clone(), fmt, resolver: Resolver::always(a.key), aud: None, nonce: None }).out,
                None => Outcome::Err("no presentation".into()),
            }).collect();
            ctx.impl_calls += 5;
            let counts: Vec<Option<usize>> = pres.iter().map(|p| p.as_ref().and_then(|p| split(fmt, p)).map(|p| p.disclosures.len())).collect();
            outs.push((s, counts, vers));
        }
        ctx.evaluations += 1;
        ctx.oracle_checks += 1;
        let mut problems = vec![];
        if outs[0].1 != outs[1].1 || outs[0].1.iter().any(Option::is_none) {
            problems.push("the holder's result with decoys differs from the decoy-free case".to_string());
        }
        for k in 0..2 {
            match (&outs[0].2[k], &outs[1].2[k]) {
                (Outcome::Ok(a), Outcome::Ok(b)) => {
                    if a != b {
                        problems.push("verified claims with decoys differ from the decoy-free case".into());
                    } else if k == 0 && *a != claims {
                        problems.push("select-all on a credential with many objects does not return the claims".into());
                    }
                }
                (a, b) => problems.push(format!("the verifier's decision with decoys ({}) and without ({}) on a credential with many objects: both must accept", a.class(), b.class())),
            }
        }
        ctx.count("case.many-objects-inert");
        if problems.is_empty() {
            ctx.nontrivial(&case);
        } else {
            ctx.violation("oracle", "verify", &problems[0].clone(), case, json!({"problems": problems}), json!("decoys are inert"));
        }
    }
    // (b)
    let (n, times) = if ctx.tier == Tier::Quick { (30000usize, 4usize) } else { (30000, 12) };
    let claims = many_object_claims(n);
    let a = IssueArgs { claims: claims.clone(), strategy: Strategy::All, holder: None, decoy: true, fmt: Fmt::Compact, key: KeyId::Hmac1, alg: Some("HS256".into()), queue: None };
    let case = json!({"long_lived_issuer": {"list_elements": n, "issuances_on_one_instance": times, "decoys": true, "strategy": "all"}});
    match issue_sequence(a.key, a.alg.clone(), vec![a.clone(); times]) {
        Some(seq) => {
            ctx.impl_calls += times;
            let mut handed_out = 0usize;
            for (k, res) in seq.iter().enumerate() {
                ctx.evaluations += 1;
                ctx.oracle_checks += 1;
                let parts = match res.out.ok().and_then(|s| split(a.fmt, s)) {
                    Some(p) => p,
                    None => {
                        ctx.violation("oracle", "issue", &format!("issuance {} on a long-lived issuer did not return an SD-JWT", k + 1), case.clone(), res.out.describe(), json!("Ok"));
                        return;
                    }
                };
                let real: HashSet<String> = parts.disclosures.iter().map(|d| hash(d)).collect();
                let mut images = vec![];
                if let Some(pl) = parts.payload() {
                    object_images(&pl, &mut images);
                }
                for d in &parts.disclosures {
                    if let Some(Value::Array(arr)) = decode_disclosure(d) {
                        if let Some(v) = arr.last() {
                            object_images(v, &mut images);
                        }
                    }
                }
                let mut seen = HashSet::new();
                let mut bare = 0usize;
                let mut repeated = 0usize;
                for l in &images {
                    let decoys: Vec<&String> = l.iter().filter(|d| !real.contains(*d)).collect();
                    if decoys.is_empty() {
                        bare += 1;
                    }
                    for d in decoys {
                        if !seen.insert(d.clone()) {
                            repeated += 1;
                        }
                    }
                }
                handed_out += seen.len();
                ctx.count("case.long-lived-issuer-issuance");
                if bare > 0 || repeated > 0 {
                    ctx.violation("oracle", "issue", &format!("issuance {} on one issuer instance ({} decoys handed out so far): {} of {} objects carry no decoy digest, {} decoys repeated", k + 1, handed_out, bare, images.len(), repeated),
                                  case.clone(), json!({"objects": images.len(), "objects_without_decoy": bare, "repeated_decoys": repeated, "issuance": k + 1}), json!("every object carries at least one decoy"));
                    return;
                }
            }
            ctx.count_n("long_lived_issuer.decoys_handed_out", handed_out);
            ctx.nontrivial(&case);
        }
        None => ctx.notes.push("long-lived issuer stream: the issuance sequence did not run".into()),
    }
}

/// hand-signed credentials whose decoy digests differ from a real digest of the same credential in a few characters only (a
/// shared prefix of 8 / 16 / 42 characters, a shared suffix, one character changed): they are different digests that match no
/// disclosure, i.e. decoys — the verifier's result is that of the decoy-free credential
fn near_digest_decoys(ctx: &mut Ctx) {
    use crate::keys::KeyId;
    let far = now() + 100000;
    let d1 = b64_json(&json!(["c2FsdC1uZWFyLTE", "given_name", "Erika"]));
    let d2 = b64_json(&json!(["c2FsdC1uZWFyLTI", "family_name", "Mustermann"]));
    let d3 = b64_json(&json!(["c2FsdC1uZWFyLTM", "DE"]));
    let (h1, h2, h3) = (hash(&d1), hash(&d2), hash(&d3));
    let swap_last = |h: &str| format!("{}{}", &h[..h.len() - 1], if h.ends_with('A') { "Q" } else { "A" });
    let near: Vec<(&str, String)> = vec![
        ("first-8-shared", format!("{}{}", &h1[..8], &hash("decoy-a")[8..])), ("first-16-shared", format!("{}{}", &h2[..16], &hash("decoy-b")[16..])), ("first-42-shared", swap_last(&h1)),
        ("last-35-shared", format!("{}{}", &hash("decoy-c")[..8], &h3[8..])), ("first-character-changed", format!("{}{}", if h2.starts_with('A') { "B" } else { "A" }, &h2[1..])),
        ("case-changed", h3.chars().map(|c| if c.is_ascii_lowercase() { c.to_ascii_uppercase() } else { c.to_ascii_lowercase() }).collect::<String>()),
    ];
    let base = json!({"iss": "https://issuer.example", "exp": far, "_sd_alg": "sha-256", "_sd": [h1.clone(), h2.clone()], "nationalities": ["FR", {"...": h3.clone()}], "address": {"_sd": []}});
    let free = verify(&VerifyArgs { input: Parts { jwt: sign_payload(&base, KeyId::IssuerEc), disclosures: vec![d1.clone(), d2.clone(), d3.clone()], kb: None }.compact(), fmt: Fmt::Compact, resolver: Resolver::always(KeyId::IssuerEc), aud: None, nonce: None });
    ctx.impl_calls += 1;
    for (k, (name, decoy)) in near.iter().enumerate() {
        if decoy == &h1 || decoy == &h2 || decoy == &h3 {
            continue;
        }
        for place in ["top-level-list", "nested-list", "array-placeholder", "all-three"] {
            let mut p = base.clone();
            if place == "top-level-list" || place == "all-three" {
                p["_sd"].as_array_mut().unwrap().insert(k % 3, json!(decoy));
            }
            if place == "nested-list" || place == "all-three" {
                p["address"]["_sd"].as_array_mut().unwrap().push(json!(swap_last(decoy)));
            }
            if place == "array-placeholder" || place == "all-three" {
                p["nationalities"].as_array_mut().unwrap().push(json!({"...": format!("{}{}", &decoy[..20], &hash(place)[20..])}));
            }
            for fmt in [Fmt::Compact, Fmt::Json] {
                let input = Parts { jwt: sign_payload(&p, KeyId::IssuerEc), disclosures: vec![d1.clone(), d2.clone(), d3.clone()], kb: None }.render(fmt);
                let got = verify(&VerifyArgs { input: input.clone(), fmt, resolver: Resolver::always(KeyId::IssuerEc), aud: None, nonce: None });
                ctx.impl_calls += 1;
                ctx.evaluations += 1;
                ctx.oracle_checks += 1;
                ctx.count("case.near-digest-decoy");
                let case = json!({"near_digest_decoy": {"kind": name, "place": place, "fmt": fmt.name(), "input": input}});
                let same = match (&free.out, &got.out) {
                    (Outcome::Ok(a), Outcome::Ok(b)) => a == b,
                    _ => false,
                };
                if same {
                    ctx.nontrivial(&case);
                } else {
                    ctx.violation("oracle", "verify", &format!("a decoy digest that resembles a real one ({}, {}) changes the verifier's result", name, place), case, got.out.describe(), free.out.describe());
                }
            }
        }
    }
}

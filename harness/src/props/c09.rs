//! C09 — credentials outside their validity window are never accepted.

use crate::attack::*;
use crate::ctx::*;
use crate::flow::*;
use crate::gen::*;
use crate::imp::*;
use crate::keys::*;
use crate::tok::*;
use serde_json::{json, Value};

pub fn run(ctx: &mut Ctx, _replay: Option<&str>) {
    ctx.rule = "honest flows (issuer, holder, verifier all real) whose claims carry exp in {absent, null, string, negative, now-10y..now-120s} (must reject) or {now+1h..2100} (must accept) \
                and nbf in {absent, past} (accept) or {now+120s..now+10y} (reject), x format x key binding; instants within 120 s of a boundary are never generated; \
                non-trivial = every case (each is a distinct exp/nbf/format/kb combination); distinct by presentation text".into();
    let cfg = FlowCfg {
        tree: TreeCfg { max_depth: 3, max_fanout: 3, path_safe_names: false, plain: true },
        allow_custom: true,
        allow_kb: true,
        sel_density: 5,
    };
    // a credential that is accepted now must be refused once its exp lies more than the leeway in the past, also by a verifier
    // thread that has accepted this very presentation before: the same calls again on the same thread after a pause (in the
    // background while the rest of the run goes on)
    let delayed = std::thread::spawn(move || {
        let now = now();
        let mut calls = vec![];
        let mut names = vec![];
        for (k, fmt) in [Fmt::Compact, Fmt::Json].into_iter().enumerate() {
            let holder = if k == 0 { KeyId::HolderEc } else { KeyId::HolderEd };
            let payload = json!({"iss": "https://issuer.example", "exp": now + 6, "iat": now, "_sd_alg": "sha-256", "cnf": {"jwk": holder.jwk_json().unwrap()}, "sub": "x"});
            let jwt = sign_payload(&payload, KeyId::IssuerEc);
            let sd_hash = hash(&Parts { jwt: jwt.clone(), disclosures: vec![], kb: None }.compact());
            let kb = sign_token(&json!({"alg": holder.alg(), "typ": "kb+jwt"}), &json!({"nonce": "n-1", "aud": "https://verifier.example", "iat": now, "sd_hash": sd_hash}), holder, holder.alg());
            calls.push(VerifyArgs { input: Parts { jwt: jwt.clone(), disclosures: vec![], kb: Some(kb) }.render(fmt), fmt, resolver: Resolver::always(KeyId::IssuerEc), aud: Some("https://verifier.example".into()), nonce: Some("n-1".into()) });
            names.push(format!("{} with key binding", fmt.name()));
            calls.push(VerifyArgs { input: Parts { jwt, disclosures: vec![], kb: None }.render(fmt), fmt, resolver: Resolver::always(KeyId::IssuerEc), aud: None, nonce: None });
            names.push(format!("{} without key binding", fmt.name()));
        }
        let n = calls.len();
        let mut twice = calls.clone();
        twice.extend(calls.clone());
        let mut pauses = vec![0u64; 2 * n];
        pauses[n] = 6 + 60 + 4;
        (verify_sequence(&twice, &pauses), names, now + 6)
    });
    let n = ctx.tier.pick(300, 6000);
    let mut attacks = vec![];
    const Y: u64 = 365 * 24 * 3600;
    for i in 0..n {
        let mut r = ctx.rng.fork(i as u64);
        let mut f = gen_flow(&mut r, &cfg);
        let now = now();
        let m = f.issue.claims.as_object_mut().unwrap();
        m.remove("nbf");
        let (exp_class, exp_ok): (&str, bool) = match r.below(13) {
            // number forms: NumericDate may be any JSON number (RFC 7519); tiny values lie decades in the past
            9 => { m.insert("exp".into(), json!(*r.pick(&[0u64, 1, 5, 29, 30, 31, 59, 60, 61, 100, 3600]))); ("epoch-small", false) }
            10 => { m.insert("exp".into(), json!((now + 3600 + r.next() % 100000) as f64 + 0.5)); ("future-fraction", true) }
            11 => { m.insert("exp".into(), json!(*r.pick(&[1.9e9f64, 2.5e9, 3.0e9, 1900000000.0, 4.0e9]))); ("future-float-form", true) }
            12 => { m.insert("exp".into(), json!((now - 120 - r.next() % 100000) as f64 - 0.25)); ("past-fraction", false) }
            0 => { m.remove("exp"); ("absent", false) }
            1 => { m.insert("exp".into(), Value::Null); ("null", false) }
            2 => { m.insert("exp".into(), json!(format!("{}", now + 5000))); ("string", false) }
            3 => { m.insert("exp".into(), json!(-(1 + (r.next() % 100000) as i64))); ("negative", false) }
            4 => { m.insert("exp".into(), json!(now - 120 - r.next() % (10 * Y))); ("past", false) }
            5 => { m.insert("exp".into(), json!(now - 70 - r.next() % 1000)); ("just-past", false) }
            6 => { m.insert("exp".into(), json!(now + 3600 + r.next() % 1000)); ("near-future", true) }
            _ => { m.insert("exp".into(), json!(now + 3600 + r.next() % (FAR_FUTURE - now - 3600))); ("future", true) }
        };
        let (nbf_class, nbf_ok): (&str, bool) = match r.below(6) {
            0 | 1 => ("absent", true),
            2 => { m.insert("nbf".into(), json!(now - 120 - r.next() % (10 * Y))); ("past", true) }
            3 => { m.insert("nbf".into(), json!(now + 120 + r.next() % 1000)); ("just-future", false) }
            _ => { m.insert("nbf".into(), json!(now + 120 + r.next() % (10 * Y))); ("future", false) }
        };
        // iat plays no part in the window: whatever the issuer claims about its own clock, exp and nbf decide
        let mut context = false;
        let iat_class = match r.below(9) {
            0 => { m.remove("iat"); "absent" }
            1 => { m.insert("iat".into(), json!(now + 200 + r.next() % 400)); "future-minutes" }
            2 => { m.insert("iat".into(), json!(now + 3600 + r.next() % Y)); "future-far" }
            3 => { m.insert("iat".into(), json!(now - r.next() % (10 * Y))); "past" }
            4 => { m.insert("iat".into(), json!((now + 500) as f64 + 0.5)); "future-fraction" }
            5 => { m.insert("iat".into(), json!(*r.pick(&[0u64, 1, u32::MAX as u64, i64::MAX as u64, u64::MAX]))); "extreme" }
            // the very same number as nbf / as exp
            6 => match m.get("nbf").cloned() { Some(n) => { m.insert("iat".into(), n); "equal-to-nbf" } None => "as-generated" },
            7 if r.chance(1, 2) => match m.get("exp").cloned() { Some(n) => { m.insert("iat".into(), n); "equal-to-exp" } None => "as-generated" },
            _ => "as-generated",
        };
        // claims other specifications give a meaning to (credential type, status, identifiers ...), in clear in the signed payload:
        // they have no bearing on the validity window
        if r.chance(1, 3) {
            for _ in 0..r.range(1, 3) {
                let (k, v) = match r.below(10) {
                    0 | 1 => ("vct", json!("https://credentials.example/identity_credential")),
                    2 => ("status", json!({"status_list": {"idx": 7, "uri": "https://s.example/1"}})),
                    3 => ("jti", json!("urn:uuid:3a2b")),
                    4 => ("typ", json!("vc+sd-jwt")),
                    5 => ("client_id", json!("x")),
                    6 => ("nonce", json!("n")),
                    7 => ("vc", json!({"type": ["VerifiableCredential"]})),
                    8 => ("ttl", json!(1000000)),
                    _ => ("validUntil", json!("2099-01-01T00:00:00Z")),
                };
                m.insert(k.into(), v);
            }
            context = true;
        }
        if context {
            // keep them in clear: no hiding at top level
            if !matches!(f.issue.strategy, Strategy::None) {
                f.issue.strategy = if r.chance(1, 2) { Strategy::None } else { Strategy::Custom(vec![]) };
            }
            f.sel = Default::default();
            ctx.count("context_claims_in_clear");
        }
        ctx.count(&format!("iat.{}", iat_class));
        ctx.count(&format!("exp.{}", exp_class));
        ctx.count(&format!("nbf.{}", nbf_class));
        ctx.count(&format!("fmt.{}.kb.{}", f.issue.fmt.name(), f.kb.is_some()));
        let h = match honest(ctx, &f) {
            Some(h) => h,
            None => {
                ctx.count("honest_flow_failed(skipped)");
                continue;
            }
        };
        // The rule speaks about the nbf of the issuer-signed JWT.  A strategy may make nbf itself selectively
        // disclosable (C05 keeps only iss/iat/exp always visible); the signed payload then carries no nbf, no verifier
        // can see a withheld one, and nothing is asserted about it (DESIGN.md §7, observation f).
        let nbf_signed = h.issued.payload().map(|p| p.get("nbf").is_some()).unwrap_or(false);
        let nbf_hidden_future = !nbf_ok && !nbf_signed;
        if nbf_hidden_future {
            ctx.count("nbf.future-but-hidden-by-strategy(not asserted)");
        }
        let expect = if !exp_ok {
            Expect::Reject
        } else if nbf_ok {
            Expect::Accept
        } else if nbf_hidden_future {
            Expect::Free
        } else {
            Expect::Reject
        };
        attacks.push(Attack {
            name: format!("exp-{}/nbf-{}{}", exp_class, nbf_class, if nbf_hidden_future { "-hidden" } else { "" }),
            args: f.verify_args(&h.pres_text),
            expect,
            origin: json!({"flow": f.json()}),
            nontrivial: true,
        });
    }
    // hand-built tokens (signed here with the test issuer key): the validity claims of the ISSUER-SIGNED payload decide, never a
    // disclosed claim of the same name and never the instant a key-binding JWT claims for itself
    {
        let now = now();
        let mut r = ctx.rng.fork(5_000_000);
        for (k, fmt) in [Fmt::Compact, Fmt::Json, Fmt::Compact, Fmt::Json].into_iter().enumerate() {
            // (a) no exp in the signed payload; a disclosure named exp (any number) referenced from the top-level _sd
            for (name, val) in [("future", json!(now + 100000)), ("past", json!(1000000000u64)), ("zero", json!(0))] {
                let d = b64_json(&json!(["c2FsdC1mb3ItZXhw", "exp", val]));
                let payload = json!({"iss": "https://issuer.example", "_sd_alg": "sha-256", "_sd": [hash(&d)], "sub": "x"});
                let jwt = sign_payload(&payload, KeyId::IssuerEc);
                let input = Parts { jwt, disclosures: vec![d], kb: None }.render(fmt);
                attacks.push(Attack { name: format!("exp-only-as-a-disclosed-claim-{}", name), args: VerifyArgs { input, fmt, resolver: Resolver::always(KeyId::IssuerEc), aud: None, nonce: None },
                                      expect: Expect::Reject, origin: json!({"hand_built": "no exp in the signed payload", "disclosed_exp": name}), nontrivial: true });
            }
            // (b) expired credential, key binding requested, the KB-JWT claims an iat before the expiry
            let holder = if k % 2 == 0 { KeyId::HolderEc } else { KeyId::HolderEd };
            let exp = now - 3600 - r.next() % 100000;
            let payload = json!({"iss": "https://issuer.example", "exp": exp, "_sd_alg": "sha-256", "cnf": {"jwk": holder.jwk_json().unwrap()}, "sub": "x"});
            let jwt = sign_payload(&payload, KeyId::IssuerEc);
            let sd_hash = hash(&Parts { jwt: jwt.clone(), disclosures: vec![], kb: None }.compact());
            for (name, iat) in [("before-expiry", exp - 600), ("long-ago", 1000000000u64), ("now", now)] {
                let kb = sign_token(&json!({"alg": holder.alg(), "typ": "kb+jwt"}), &json!({"nonce": "n-1", "aud": "https://verifier.example", "iat": iat, "sd_hash": sd_hash}), holder, holder.alg());
                let input = Parts { jwt: jwt.clone(), disclosures: vec![], kb: Some(kb) }.render(fmt);
                attacks.push(Attack { name: format!("expired-with-key-binding-iat-{}", name), args: VerifyArgs { input, fmt, resolver: Resolver::always(KeyId::IssuerEc), aud: Some("https://verifier.example".into()), nonce: Some("n-1".into()) },
                                      expect: Expect::Reject, origin: json!({"hand_built": "expired credential with key binding", "kb_iat": name}), nontrivial: true });
            }
            // (c) the issuer-signed JWT under other protected headers (typ of another kind of token, kid, cty ...): the window
            // is that of the payload whatever the header says
            for typ in ["kb+jwt", "JWT", "vc+sd-jwt", "at+jwt", "dpop+jwt", ""] {
                for (pname, pl) in [("exp-absent", json!({"iss": "https://issuer.example", "_sd_alg": "sha-256", "sub": "x"})), ("exp-null", json!({"iss": "https://issuer.example", "exp": null, "sub": "x"})),
                                    ("exp-string", json!({"iss": "https://issuer.example", "exp": format!("{}", now + 5000), "sub": "x"})), ("exp-long-past", json!({"iss": "https://issuer.example", "exp": now - 100000, "sub": "x"})),
                                    ("nbf-next-year", json!({"iss": "https://issuer.example", "exp": now + 100000, "nbf": now + 31_000_000, "sub": "x"}))] {
                    if (k + typ.len() + pname.len()) % 2 == 0 {
                        continue;
                    }
                    let jwt = sign_token(&json!({"alg": "ES256", "typ": typ}), &pl, KeyId::IssuerEc, "ES256");
                    attacks.push(Attack { name: format!("header-typ-{:?}-{}", typ, pname), args: VerifyArgs { input: Parts { jwt, disclosures: vec![], kb: None }.render(fmt), fmt, resolver: Resolver::always(KeyId::IssuerEc), aud: None, nonce: None },
                                          expect: Expect::Reject, origin: json!({"hand_built": "header typ", "typ": typ, "payload": pname}), nontrivial: true });
                }
            }
            // (d) payload TEXTS that repeat a member name (signed as raw text): outside the window is outside the window
            for (dname, dup) in [("sub", "\"sub\":\"alice\",\"sub\":\"alice\""), ("iss", "\"iss\":\"https://issuer.example\""), ("jti", "\"jti\":\"a\",\"jti\":\"b\""), ("aud-like", "\"azp\":1,\"azp\":1"), ("nbf", "\"nbf\":1,\"nbf\":1")] {
                for (wname, window) in [("exp-long-past", format!("\"exp\":{}", now - 100000)), ("exp-just-past", format!("\"exp\":{}", now - 125)), ("exp-absent", "\"x\":1".to_string()), ("exp-string", "\"exp\":\"never\"".to_string()),
                                        ("nbf-next-year", format!("\"exp\":{},\"nbf\":{}", now + 100000, now + 31_000_000)), ("exp-twice-past-then-future", format!("\"exp\":{},\"exp\":{}", now - 100000, now + 100000)),
                                        ("exp-twice-future-then-past", format!("\"exp\":{},\"exp\":{}", now + 100000, now - 100000))] {
                    if (k + dname.len() + wname.len()) % 2 == 1 {
                        continue;
                    }
                    let text = format!("{{\"iss\":\"https://issuer.example\",{},{},\"_sd_alg\":\"sha-256\"}}", dup, window);
                    let jwt = sign_raw("{\"alg\":\"ES256\"}", &text, KeyId::IssuerEc, "ES256");
                    attacks.push(Attack { name: format!("payload-repeats-{}-{}", dname, wname), args: VerifyArgs { input: Parts { jwt, disclosures: vec![], kb: None }.render(fmt), fmt, resolver: Resolver::always(KeyId::IssuerEc), aud: None, nonce: None },
                                          expect: Expect::Reject, origin: json!({"hand_built": "payload text repeating a member name", "repeated": dname, "window": wname}), nontrivial: true });
                }
            }
            // control: the same construction inside the window is accepted
            let payload = json!({"iss": "https://issuer.example", "exp": now + 100000, "_sd_alg": "sha-256", "cnf": {"jwk": holder.jwk_json().unwrap()}, "sub": "x"});
            let jwt = sign_payload(&payload, KeyId::IssuerEc);
            let sd_hash = hash(&Parts { jwt: jwt.clone(), disclosures: vec![], kb: None }.compact());
            let kb = sign_token(&json!({"alg": holder.alg(), "typ": "kb+jwt"}), &json!({"nonce": "n-1", "aud": "https://verifier.example", "iat": now, "sd_hash": sd_hash}), holder, holder.alg());
            let input = Parts { jwt, disclosures: vec![], kb: Some(kb) }.render(fmt);
            attacks.push(Attack { name: "control-hand-built-in-window-with-key-binding".into(), args: VerifyArgs { input, fmt, resolver: Resolver::always(KeyId::IssuerEc), aud: Some("https://verifier.example".into()), nonce: Some("n-1".into()) },
                                  expect: Expect::Accept, origin: json!({"hand_built": "control"}), nontrivial: true });
        }
    }
    run_attacks(ctx, &attacks);
    match delayed.join() {
        Ok((Some(res), names, exp)) => {
            let n = names.len();
            for k in 0..n {
                let (first, second) = (&res[k], &res[n + k]);
                ctx.evaluations += 1;
                ctx.impl_calls += 2;
                ctx.oracle_checks += 1;
                ctx.count(&format!("delayed_reverification.first_{}.second_{}", first.out.class(), second.out.class()));
                let case = json!({"delayed_reverification": {"presentation": names[k], "exp": exp, "first_verified_at": first.t0, "verified_again_at": second.t0, "same_thread": true}});
                if second.t0 <= exp + 60 {
                    ctx.notes.push("delayed re-verification: the second call ran before exp + leeway (not judged)".into());
                } else if second.out.is_ok() {
                    ctx.violation("oracle", "verify", &format!("a credential whose exp lies {} s in the past was accepted by a thread that had verified it before ({})", second.t0 - exp, names[k]), case, second.out.describe(), json!("Err"));
                } else {
                    ctx.nontrivial(&case);
                }
            }
        }
        _ => ctx.notes.push("delayed re-verification did not return".into()),
    }
    if let Some(a) = attacks.last() {
        ctx.sample(json!({"case": a.name, "origin": a.origin}));
    }
}

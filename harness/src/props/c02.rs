//! C02 — the verifier accepts only an intact issuer-signed JWT under the resolver's key.

use crate::attack::*;
use crate::ctx::*;
use crate::flow::*;
use crate::gen::*;
use crate::imp::*;
use crate::keys::*;
use crate::rng::Rng;
use crate::tok::*;
use serde_json::{json, Value};

fn key_other_family(k: KeyId) -> KeyId {
    match k.fam() {
        Fam::Ec => KeyId::IssuerEd,
        Fam::Ed => KeyId::Hmac1,
        Fam::Hmac => KeyId::IssuerEc,
        Fam::Rsa => KeyId::IssuerEc,
    }
}

fn with_jwt(base: &Honest, jwt: String) -> String {
    let mut p = base.pres.clone();
    p.jwt = jwt;
    p.render(base.flow.issue.fmt)
}

fn mk(name: &str, h: &Honest, input: String, resolver: Resolver, kb: bool) -> Attack {
    let mut args = h.flow.verify_args(&input);
    args.resolver = resolver;
    if !kb {
        args.aud = None;
        args.nonce = None;
    }
    Attack { name: name.to_string(), args, expect: Expect::Reject, origin: json!({"flow": h.flow.json(), "honest_presentation": h.pres_text}), nontrivial: true }
}

pub fn tamperings(r: &mut Rng, h: &Honest, other: Option<&Honest>, positions: usize, all_positions: bool) -> Vec<Attack> {
    let mut out = vec![];
    let f = &h.flow;
    let honest_resolver = Resolver::always(f.issue.key);
    let kb = f.kb.is_some();
    let jwt = &h.pres.jwt;
    // control: the untouched presentation is accepted
    let mut control = mk("control", h, h.pres_text.clone(), honest_resolver.clone(), kb);
    control.expect = Expect::Accept;
    out.push(control);
    if kb {
        // ... also when the verifier does not ask for key binding
        let mut c2 = mk("control-no-kb-requested", h, h.pres_text.clone(), honest_resolver.clone(), false);
        c2.expect = Expect::Accept;
        out.push(c2);
    }
    // single-character edits
    let idx: Vec<usize> = if all_positions { (0..jwt.len()).collect() } else { (0..positions).map(|_| r.below(jwt.len())).collect() };
    for i in idx {
        if jwt.as_bytes()[i] == b'.' && !all_positions {
            continue;
        }
        for kind in 0..3 {
            if !all_positions && kind != r.below(3) && r.chance(2, 3) {
                continue;
            }
            let t = edit_at(r, jwt, i, kind);
            if t == *jwt {
                continue;
            }
            let part = match jwt[..i].matches('.').count() { 0 => "header", 1 => "payload", _ => "signature" };
            out.push(mk(&format!("edit-{}-{}: position {}", ["subst", "delete", "insert"][kind], part, i), h, with_jwt(h, t), honest_resolver.clone(), kb && r.chance(1, 2)));
        }
    }
    // a character replaced by its counterpart in the OTHER base64 alphabet ('-' by '+', '_' by '/', and back), by '=' and by its
    // other letter case: at every such position (quick: a sample)
    {
        let pos: Vec<usize> = jwt.char_indices().filter(|(_, c)| matches!(c, '-' | '_')).map(|(i, _)| i).collect();
        let sample: Vec<usize> = if all_positions || pos.len() <= 12 { pos.clone() } else { (0..12).map(|_| *r.pick(&pos)).collect() };
        for i in sample {
            let c = jwt.as_bytes()[i] as char;
            for rep in [if c == '-' { '+' } else { '/' }, '=', if c == '-' { '_' } else { '-' }] {
                let t = format!("{}{}{}", &jwt[..i], rep, &jwt[i + 1..]);
                let part = match jwt[..i].matches('.').count() { 0 => "header", 1 => "payload", _ => "signature" };
                out.push(mk(&format!("edit-other-alphabet-{}: position {} {:?}->{:?}", part, i, c, rep), h, with_jwt(h, t), honest_resolver.clone(), kb && r.chance(1, 2)));
            }
        }
        let letters: Vec<usize> = jwt.char_indices().filter(|(_, c)| c.is_ascii_alphabetic()).map(|(i, _)| i).collect();
        for _ in 0..(if all_positions { 30 } else { 5 }) {
            let i = *r.pick(&letters);
            let c = jwt.as_bytes()[i] as char;
            let rep = if c.is_ascii_lowercase() { c.to_ascii_uppercase() } else { c.to_ascii_lowercase() };
            out.push(mk(&format!("edit-other-case: position {}", i), h, with_jwt(h, format!("{}{}{}", &jwt[..i], rep, &jwt[i + 1..])), honest_resolver.clone(), kb && r.chance(1, 2)));
        }
    }
    // multi-byte characters substituted / inserted: at every one of the last 16 positions (code that slices the token by byte
    // offsets from its end) and at a sample of other positions
    {
        let n = jwt.len();
        let mut idx: Vec<usize> = (n.saturating_sub(16)..n).collect();
        for _ in 0..(if all_positions { 40 } else { 6 }) {
            idx.push(r.below(n));
        }
        for i in idx {
            if !jwt.is_char_boundary(i) || jwt.as_bytes()[i] == b'.' {
                continue;
            }
            for ch in ['\u{e9}', '\u{20ac}', '\u{1f600}'] {
                if !all_positions && i + 16 < n && r.chance(2, 3) {
                    continue;
                }
                let mut t = String::with_capacity(n + 4);
                t.push_str(&jwt[..i]);
                t.push(ch);
                t.push_str(&jwt[i + 1..]);
                out.push(mk(&format!("edit-subst-multibyte: position {} U+{:X}", i, ch as u32), h, with_jwt(h, t), honest_resolver.clone(), kb && r.chance(1, 2)));
                let mut t = String::with_capacity(n + 4);
                t.push_str(&jwt[..i]);
                t.push(ch);
                t.push_str(&jwt[i..]);
                out.push(mk(&format!("edit-insert-multibyte: position {} U+{:X}", i, ch as u32), h, with_jwt(h, t), honest_resolver.clone(), kb && r.chance(1, 2)));
            }
        }
    }
    let parts: Vec<&str> = jwt.split('.').collect();
    if parts.len() == 3 {
        // further dot-separated segments after the signature
        for tail in [".", ".AAAA", "..", ".e30"] {
            out.push(mk(&format!("extra-segment-after-signature: {:?}", tail), h, with_jwt(h, format!("{}{}", jwt, tail)), honest_resolver.clone(), kb));
        }
        // the token names its own verification key in the protected header (RFC 7515 jwk) and is signed with it, payload forged;
        // the resolver still returns the issuer's key
        {
            let attacker = if f.issue.key.fam() == Fam::Ed { KeyId::HolderEd } else { KeyId::HolderEc };
            if let (Some(jwk), Some(mut pl)) = (attacker.jwk_json(), h.pres.payload()) {
                if let Some(m) = pl.as_object_mut() {
                    m.insert("role".into(), json!("admin"));
                }
                let hdr = json!({"alg": attacker.alg(), "jwk": jwk});
                let t = sign_token(&hdr, &pl, attacker, attacker.alg());
                out.push(mk("header-jwk-names-the-attackers-key", h, with_jwt(h, t), honest_resolver.clone(), kb));
                let hdr2 = json!({"alg": attacker.alg(), "jwk": jwk, "kid": "attacker"});
                let t2 = sign_token(&hdr2, &h.pres.payload().unwrap_or(json!({})), attacker, attacker.alg());
                out.push(mk("header-jwk-names-the-attackers-key-original-payload", h, with_jwt(h, t2), honest_resolver.clone(), kb));
            }
        }
        // a resolver that picks the key by the header's kid: the kid that counts is the one in the SIGNED header. Tokens signed by
        // hand with the issuer key (kid "k-issuer") and with another key the resolver also knows (kid "k-other"); in the JSON
        // form further top-level members (header / unprotected / protected_header ...) name the other kid
        if let Some(pl) = h.pres.payload() {
            let issuer = f.issue.key;
            let other_k = other_key_same_family(issuer);
            let by_kid = Resolver { default: key_other_family(issuer), by_iss: vec![], by_kid: vec![("k-issuer".into(), issuer), ("k-other".into(), other_k)] };
            let alg = issuer.alg();
            let good = sign_token(&json!({"alg": alg, "kid": "k-issuer"}), &pl, issuer, alg);
            let wrong = sign_token(&json!({"alg": alg, "kid": "k-issuer"}), &pl, other_k, alg);
            let mut forged_pl = pl.clone();
            if let Some(m) = forged_pl.as_object_mut() {
                m.insert("role".into(), json!("admin"));
            }
            let forged = sign_token(&json!({"alg": alg, "kid": "k-issuer"}), &forged_pl, other_k, alg);
            // key binding hashes the presentation, which changes with the JWT: these run without the KB-JWT
            let bare = |jwt: &str| Parts { jwt: jwt.to_string(), disclosures: h.pres.disclosures.clone(), kb: None };
            let mut c = mk("control-kid-resolver", h, bare(&good).render(f.issue.fmt), by_kid.clone(), false);
            c.expect = Expect::Accept;
            out.push(c);
            out.push(mk("kid-resolver-signed-with-the-other-key", h, bare(&wrong).render(f.issue.fmt), by_kid.clone(), false));
            for member in ["header", "unprotected", "protected_header", "headers", "jose"] {
                for (tname, t) in [("same-payload", &wrong), ("forged-payload", &forged)] {
                    let text = bare(t).json_form(false, Some((member, json!({"kid": "k-other", "alg": alg}))));
                    let mut a = mk(&format!("kid-resolver-unsigned-{}-member-names-the-other-kid: {}", member, tname), h, text, by_kid.clone(), false);
                    a.args.fmt = Fmt::Json;
                    out.push(a);
                }
            }
            // tokens signed by hand whose protected header carries the parameters that say where a key could be fetched from: the
            // resolver is asked with exactly that header (rule above), and the key it returns decides
            for (pname, hdr) in [("jku", json!({"alg": alg, "jku": "https://issuer.example/keys-2"})), ("x5u", json!({"alg": alg, "x5u": "https://issuer.example/cert"})), ("x5t", json!({"alg": alg, "x5t": "dGh1bWI", "x5t#S256": "dGh1bWIy"})),
                                 ("cty-typ", json!({"alg": alg, "cty": "json", "typ": "vc+sd-jwt"})), ("iss-replicated-other", json!({"alg": alg, "iss": "https://other-issuer.example", "sub": "s", "aud": "a"})),
                                 ("iss-replicated-same", json!({"alg": alg, "iss": pl.get("iss").cloned().unwrap_or(json!("x"))})), ("unknown-members", json!({"alg": alg, "zz": [1, {"a": null}], "b64": true})), ("all", json!({"alg": alg, "kid": "k-issuer", "jku": "https://a.example/k", "x5u": "https://a.example/c", "typ": "JWT", "cty": "x"}))] {
                let tok = sign_token(&hdr, &pl, issuer, alg);
                let mut c = mk(&format!("control-header-parameter-{}", pname), h, bare(&tok).render(f.issue.fmt), Resolver::always(issuer), false);
                c.expect = Expect::Accept;
                out.push(c);
                let tok_other = sign_token(&hdr, &pl, other_k, alg);
                out.push(mk(&format!("header-parameter-{}-signed-with-another-key", pname), h, bare(&tok_other).render(f.issue.fmt), Resolver::always(issuer), false));
            }
            let mut c2 = mk("control-kid-resolver-json-with-unsigned-header-member", h, bare(&good).json_form(true, Some(("header", json!({"kid": "k-other"})))), by_kid.clone(), false);
            c2.args.fmt = Fmt::Json;
            c2.expect = Expect::Accept;
            out.push(c2);
        }
        // characters outside the base64url alphabet (padding, standard-alphabet characters, blanks) at the ends of each part
        for (pi, pname) in ["header", "payload", "signature"].iter().enumerate() {
            for extra in ["=", "==", "+", "/", " ", "%3D", ".", "\u{feff}", "\u{200b}", "\u{a0}", "\n", "\t"] {
                for at_end in [true, false] {
                    if !all_positions && !at_end && r.chance(2, 3) {
                        continue;
                    }
                    let mut ps: Vec<String> = parts.iter().map(|x| x.to_string()).collect();
                    ps[pi] = if at_end { format!("{}{}", ps[pi], extra) } else { format!("{}{}", extra, ps[pi]) };
                    out.push(mk(&format!("nonalphabet-{}-{}: {:?} {}", if at_end { "appended" } else { "prepended" }, pname, extra, pi), h, with_jwt(h, ps.join(".")), honest_resolver.clone(), kb && r.chance(1, 2)));
                }
            }
        }
        // payload re-encoded with a claim or digest changed
        if let Some(mut pl) = h.pres.payload() {
            if let Some(m) = pl.as_object_mut() {
                match r.below(4) {
                    0 => { m.insert("injected".into(), json!("claim")); }
                    1 => { m.insert("exp".into(), json!(FAR_FUTURE + 1)); }
                    2 => {
                        if let Some(Value::Array(sd)) = m.get_mut("_sd") {
                            sd.push(json!(hash("an extra digest")));
                        } else {
                            m.insert("_sd".into(), json!([hash("an extra digest")]));
                        }
                    }
                    _ => { m.insert("iss".into(), json!("https://other-issuer.example")); }
                }
            }
            out.push(mk("payload-reencoded", h, with_jwt(h, format!("{}.{}.{}", parts[0], b64_json(&pl), parts[2])), honest_resolver.clone(), kb));
            // registered claims replaced by numbers at the edges of every machine type (whatever reads them before the signature is
            // checked must not trip), by other JSON types, by absent
            if let Some(base) = h.pres.payload() {
                let extremes = [json!(9223372036854775807u64), json!(9223372036854775808u64), json!(18446744073709551615u64), json!(-9223372036854775808i64), json!(1e19), json!(1.7e308), json!(-1e300),
                                json!(0), json!(1), json!(4), json!(0.4), json!(4294967295u64), json!(4294967296u64), json!(253402300800u64), json!("2030-01-01"), json!(null), json!([]), json!({})];
                for claim in ["exp", "nbf", "iat"] {
                    let picks: Vec<&Value> = if all_positions { extremes.iter().collect() } else { (0..3).map(|_| r.pick(&extremes)).collect() };
                    for v in picks {
                        let mut p2 = base.clone();
                        p2[claim] = v.clone();
                        out.push(mk(&format!("payload-reencoded-extreme-{}: {}", claim, v), h, with_jwt(h, format!("{}.{}.{}", parts[0], b64_json(&p2), parts[2])), honest_resolver.clone(), kb && r.chance(1, 2)));
                    }
                }
            }
            // the same bytes re-serialized (whitespace) are not the signed bytes either
            let spaced = serde_json::to_string_pretty(&h.pres.payload().unwrap()).unwrap();
            out.push(mk("payload-respaced", h, with_jwt(h, format!("{}.{}.{}", parts[0], b64(spaced.as_bytes()), parts[2])), honest_resolver.clone(), kb));
        }
        // TWO edits at once: a forged payload in a spelling only a lenient decoder reads, with a signature part in a spelling no
        // decoder reads (or a short / empty / foreign one): each half alone is rejected, and so is the pair
        if let Some(mut pl) = h.pres.payload() {
            if let Some(m) = pl.as_object_mut() {
                m.insert("role".into(), json!("admin"));
            }
            let strict = b64_json(&pl);
            let text = serde_json::to_string(&pl).unwrap();
            use base64::Engine;
            let padded = base64::engine::general_purpose::URL_SAFE.encode(text.as_bytes());
            let standard = base64::engine::general_purpose::STANDARD.encode(text.as_bytes());
            let standard_nopad = base64::engine::general_purpose::STANDARD_NO_PAD.encode(text.as_bytes());
            let payloads = [("strict", strict.clone()), ("padded", padded.clone()), ("padded-twice", format!("{}=", padded)), ("standard-alphabet", standard), ("standard-alphabet-unpadded", standard_nopad),
                            ("with-a-blank", format!("{} ", strict)), ("with-a-line-break", format!("{}\n", strict)), ("plus-appended", format!("{}+", strict)), ("slash-appended", format!("{}/", strict))];
            let sig = parts[2];
            let sigs = [("as-signed", sig.to_string()), ("one-character-cut", sig[..sig.len().saturating_sub(1)].to_string()), ("two-characters-cut", sig[..sig.len().saturating_sub(2)].to_string()), ("three-characters-cut", sig[..sig.len().saturating_sub(3)].to_string()),
                        ("empty", String::new()), ("padded", format!("{}=", sig)), ("not-base64", format!("{}!", &sig[..sig.len().saturating_sub(1)])), ("with-a-blank", format!("{} ", sig)), ("standard-alphabet-character", format!("{}+", &sig[..sig.len().saturating_sub(1)])),
                        ("a-multibyte-character", format!("{}\u{e9}", &sig[..sig.len().saturating_sub(1)])), ("one-character", "A".to_string())];
            for (pn, p) in payloads.iter() {
                for (sn, sg) in sigs.iter() {
                    if !all_positions && r.chance(2, 3) {
                        continue;
                    }
                    out.push(mk(&format!("forged-payload-{}-with-signature-{}", pn, sn), h, with_jwt(h, format!("{}.{}.{}", parts[0], p, sg)), honest_resolver.clone(), kb && r.chance(1, 2)));
                }
            }
        }
        // the protected header re-encoded (not re-signed) with a member added, each a JOSE parameter some code might look at before
        // the signature is checked
        if let Some(hdr) = h.pres.header() {
            for (k, v) in [("crit", json!([])), ("crit", json!(["exp"])), ("crit", json!("x")), ("crit", json!([1])), ("b64", json!(false)), ("jwk", json!({})), ("x5c", json!([])), ("kid", json!(["a"])), ("zip", json!("DEF")), ("typ", json!(null)), ("iss", json!("x")), ("exp", json!(1))] {
                if !all_positions && r.chance(1, 2) {
                    continue;
                }
                let mut h2 = hdr.clone();
                h2[k] = v.clone();
                out.push(mk(&format!("header-reencoded-with-{}: {}", k, v), h, with_jwt(h, format!("{}.{}.{}", b64_json(&h2), parts[1], parts[2])), honest_resolver.clone(), kb && r.chance(1, 2)));
            }
        }
        // signature stripped / truncated
        out.push(mk("signature-stripped", h, with_jwt(h, format!("{}.{}.", parts[0], parts[1])), honest_resolver.clone(), kb));
        out.push(mk("signature-missing-part", h, with_jwt(h, format!("{}.{}", parts[0], parts[1])), honest_resolver.clone(), kb));
        if parts[2].len() > 4 {
            let cut = r.range(1, parts[2].len() - 1);
            out.push(mk("signature-truncated", h, with_jwt(h, format!("{}.{}.{}", parts[0], parts[1], &parts[2][..cut])), honest_resolver.clone(), kb));
        }
        // alg rewritten
        for (name, hdr) in [
            ("alg-none", json!({"alg": "none"})),
            ("alg-missing", json!({"typ": "JWT"})),
            ("alg-unknown", json!({"alg": "XS999"})),
            ("alg-null", json!({"alg": null})),
            ("alg-lowercase", json!({"alg": f.issue.key.alg().to_lowercase()})),
        ] {
            out.push(mk(name, h, with_jwt(h, format!("{}.{}.{}", b64_json(&hdr), parts[1], parts[2])), honest_resolver.clone(), kb));
            out.push(mk(&format!("{}-unsigned", name), h, with_jwt(h, format!("{}.{}.", b64_json(&hdr), parts[1])), honest_resolver.clone(), kb));
        }
        // HS256 keyed with the verifier's public key material (algorithm confusion)
        {
            // every byte form of the public key an attacker has, each HMAC family member, original and forged payload
            for (form, secret) in public_key_materials(f.issue.key) {
                for (an, alg) in [("HS256", jsonwebtoken::Algorithm::HS256), ("HS384", jsonwebtoken::Algorithm::HS384), ("HS512", jsonwebtoken::Algorithm::HS512)] {
                    if an != "HS256" && !all_positions && r.chance(2, 3) {
                        continue;
                    }
                    let hdr = json!({"alg": an});
                    let mut pl = parts[1].to_string();
                    if r.chance(1, 2) {
                        if let Some(mut p) = h.pres.payload() {
                            if let Some(m) = p.as_object_mut() {
                                m.insert("role".into(), json!("admin"));
                            }
                            pl = b64_json(&p);
                        }
                    }
                    let msg = format!("{}.{}", b64_json(&hdr), pl);
                    if let Ok(sig) = jsonwebtoken::crypto::sign(msg.as_bytes(), &jsonwebtoken::EncodingKey::from_secret(&secret), alg) {
                        out.push(mk(&format!("alg-confusion-{}-with-public-key-{}", an, form), h, with_jwt(h, format!("{}.{}", msg, sig)), honest_resolver.clone(), kb));
                    }
                }
            }
        }
        // header of another family, properly signed by a key of that family, resolver still returns the issuer's key
        {
            let ok = key_other_family(f.issue.key);
            let t = sign_payload(&h.pres.payload().unwrap_or(json!({})), ok);
            out.push(mk("resigned-other-family", h, with_jwt(h, t), honest_resolver.clone(), kb));
        }
        // signed with a different key of the same family
        {
            let ok = other_key_same_family(f.issue.key);
            let t = sign_payload(&h.pres.payload().unwrap_or(json!({})), ok);
            out.push(mk("resigned-other-key", h, with_jwt(h, t), honest_resolver.clone(), kb));
        }
        // resolver returning any other key
        out.push(mk("resolver-other-key-same-family", h, h.pres_text.clone(), Resolver::always(other_key_same_family(f.issue.key)), kb));
        out.push(mk("resolver-other-family", h, h.pres_text.clone(), Resolver::always(key_other_family(f.issue.key)), kb));
        // resolver keyed by iss, the token claims another issuer
        if let Some(iss) = h.pres.payload().and_then(|p| p.get("iss").and_then(Value::as_str).map(String::from)) {
            let res = Resolver { default: other_key_same_family(f.issue.key), by_iss: vec![(format!("{}-trusted", iss), f.issue.key)], by_kid: vec![] };
            out.push(mk("resolver-keyed-by-iss-token-claims-other-issuer", h, h.pres_text.clone(), res, kb));
            // and the positive control: keyed by the right iss
            let res2 = Resolver { default: other_key_same_family(f.issue.key), by_iss: vec![(iss, f.issue.key)], by_kid: vec![] };
            let mut c = mk("control-resolver-keyed-by-iss", h, h.pres_text.clone(), res2, kb);
            c.expect = Expect::Accept;
            out.push(c);
            // the resolver is keyed by the EXACT iss of the token: here the token's own iss maps to a wrong key while every
            // near spelling of it (trailing slash, blanks, case) and the default map to the right one — any normalisation of
            // iss before the lookup would accept
            let iss = h.pres.payload().and_then(|p| p.get("iss").and_then(Value::as_str).map(String::from)).unwrap_or_default();
            let mut near: Vec<String> = vec![format!("{}/", iss), iss.trim_end_matches('/').to_string(), iss.trim().to_string(), format!("{} ", iss), format!(" {}", iss),
                                             iss.to_lowercase(), iss.to_uppercase(), iss.replace("https://", "http://"), iss.trim_end_matches('/').to_string() + "//"];
            near.retain(|x| *x != iss);
            near.sort();
            near.dedup();
            let mut by: Vec<(String, KeyId)> = vec![(iss.clone(), other_key_same_family(f.issue.key))];
            by.extend(near.into_iter().map(|x| (x, f.issue.key)));
            out.push(mk("resolver-exact-iss-maps-to-other-key-near-spellings-to-the-right-one", h, h.pres_text.clone(), Resolver { default: f.issue.key, by_iss: by, by_kid: vec![] }, kb));
        }
        // parts of two tokens signed by the same key
        if let Some(o) = other {
            let op: Vec<&str> = o.pres.jwt.split('.').collect();
            if op.len() == 3 && o.pres.jwt != *jwt {
                out.push(mk("mix-header-of-other", h, with_jwt(h, format!("{}.{}.{}", op[0], parts[1], parts[2])), honest_resolver.clone(), kb));
                out.push(mk("mix-payload-of-other", h, with_jwt(h, format!("{}.{}.{}", parts[0], op[1], parts[2])), honest_resolver.clone(), kb));
                out.push(mk("mix-signature-of-other", h, with_jwt(h, format!("{}.{}.{}", parts[0], parts[1], op[2])), honest_resolver.clone(), kb));
            }
        }
    }
    // mixing identical headers is no change: drop attacks whose input equals the honest text
    out.retain(|a| a.name.starts_with("control") || a.name.starts_with("resolver") || a.args.input != h.pres_text);
    out
}

pub fn honest_pairs(ctx: &mut Ctx, n: usize) -> Vec<(Honest, Option<Honest>)> {
    let cfg = FlowCfg {
        tree: TreeCfg { max_depth: 3, max_fanout: 3, path_safe_names: false, plain: true },
        allow_custom: true,
        allow_kb: true,
        sel_density: 5,
    };
    let mut out = vec![];
    for i in 0..n {
        let mut r = ctx.rng.fork(1000 + i as u64);
        let mut f = gen_flow(&mut r, &cfg);
        // the registered time claims near the verifier's clock, inside the window (a tampered token is rejected whatever they say)
        if let Some(m) = f.issue.claims.as_object_mut() {
            let now = now();
            match i % 6 {
                1 => { m.insert("nbf".into(), json!(now + 30)); }
                2 => { m.insert("nbf".into(), json!(now - 10)); m.insert("iat".into(), json!(now + 200)); }
                3 => { m.insert("exp".into(), json!(now + 600)); m.insert("nbf".into(), json!(now + 45)); }
                4 => { m.insert("iat".into(), json!(now - 5)); m.insert("exp".into(), json!(now + 120)); }
                _ => {}
            }
        }
        // every algorithm family takes part whatever the seed draws
        match i % 12 {
            3 => { f.issue.key = KeyId::IssuerRsa; f.issue.alg = Some("RS256".into()); }
            7 => { f.issue.key = KeyId::IssuerRsa2; f.issue.alg = Some("PS384".into()); }
            9 => { f.issue.key = KeyId::Hmac1; f.issue.alg = Some("HS512".into()); }
            10 => { f.issue.key = KeyId::IssuerEd; f.issue.alg = Some("EdDSA".into()); }
            _ => {}
        }
        // a second credential from the same issuer key, format and holder setting
        let mut g = gen_flow(&mut r, &cfg);
        g.issue.key = f.issue.key;
        g.issue.alg = f.issue.alg.clone();
        g.issue.fmt = f.issue.fmt;
        g.issue.holder = f.issue.holder;
        g.kb = f.kb.clone();
        let h = honest(ctx, &f);
        let o = honest(ctx, &g);
        if let Some(h) = h {
            out.push((h, o));
        } else {
            ctx.count("honest_flow_failed(skipped)");
        }
    }
    out
}

pub fn run(ctx: &mut Ctx, _replay: Option<&str>) {
    ctx.rule = "honest presentations (both formats, three issuer algorithms, with and without key binding) x tamperings of the issuer-signed JWT: single-character substitution / deletion / insertion \
                (quick: sampled positions; thorough: every position of header, payload and signature), payload re-encoded, parts mixed between two tokens of one key, signature stripped / truncated, \
                alg none / missing / unknown / HS256-with-public-key / other family, resolver returning another key or keyed by another iss; all must be rejected, controls must be accepted; \
                non-trivial = every tampering (distinct by tampered text)".into();
    let n = ctx.tier.pick(12, 60);
    let pairs = honest_pairs(ctx, n);
    let mut attacks = vec![];
    for (k, (h, o)) in pairs.iter().enumerate() {
        let mut r = ctx.rng.fork(5000 + k as u64);
        let all = ctx.tier == Tier::Thorough || k < 2;
        attacks.extend(tamperings(&mut r, h, o.as_ref(), 40, all));
        ctx.count(&format!("base.fmt.{}.alg.{}.kb.{}", h.flow.issue.fmt.name(), h.flow.issue.key.alg(), h.flow.kb.is_some()));
    }
    let mut long: Vec<Attack> = vec![];
    // long tokens (a large visible claim; the extracted model is slow on them, so these are judged on the implementation alone): single-character edits at and around power-of-two offsets and at the very end of
    // the payload part; whatever compares or hashes the signing input in blocks meets these
    for (k, kib) in (if ctx.tier == Tier::Quick { vec![70usize, 300, 1100] } else { vec![5, 70, 300, 1100, 4200] }).into_iter().enumerate() {
        let mut r = ctx.rng.fork(8000 + k as u64);
        let cfg = FlowCfg { tree: TreeCfg { max_depth: 2, max_fanout: 3, path_safe_names: false, plain: true }, allow_custom: false, allow_kb: true, sel_density: 5 };
        let mut f = gen_flow(&mut r, &cfg);
        if let Some(m) = f.issue.claims.as_object_mut() {
            m.insert("document".into(), json!("Zm9v".repeat(kib * 256)));
        }
        f.issue.strategy = Strategy::Top;
        f.sel.remove("document");
        // keep the large claim visible: it must sit in the signed payload
        f.issue.strategy = Strategy::Custom(vec![]);
        let h = match honest(ctx, &f) {
            Some(h) => h,
            None => {
                ctx.count("honest_long_flow_failed(skipped)");
                continue;
            }
        };
        let jwt = h.pres.jwt.clone();
        let kbq = f.kb.is_some();
        let res = Resolver::always(f.issue.key);
        let mut c = mk("control-long-token", &h, h.pres_text.clone(), res.clone(), kbq);
        c.expect = Expect::Accept;
        long.push(c);
        let first_dot = jwt.find('.').unwrap_or(0);
        let last_dot = jwt.rfind('.').unwrap_or(jwt.len() - 1);
        let mut idx: Vec<usize> = vec![first_dot + 1, last_dot - 1, last_dot - 2, last_dot - 3, last_dot - 4, jwt.len() - 1];
        let mut p2 = 64usize;
        while p2 < last_dot {
            for d in [-1i64, 0, 1] {
                let i = (p2 as i64 + d) as usize;
                if i > first_dot && i < last_dot {
                    idx.push(i);
                }
                let j = first_dot as i64 + 1 + p2 as i64 + d;
                if j > first_dot as i64 && (j as usize) < last_dot {
                    idx.push(j as usize);
                }
            }
            p2 *= 2;
        }
        for _ in 0..20 {
            idx.push(first_dot + 1 + r.below(last_dot - first_dot - 1));
        }
        idx.sort();
        idx.dedup();
        for i in idx {
            let kind = if i % 5 == 0 { 1 } else { 0 };
            let t = edit_at(&mut r, &jwt, i, kind);
            if t != jwt {
                long.push(mk(&format!("edit-{}-long-token: position {} of {}", ["subst", "delete"][kind], i, jwt.len()), &h, with_jwt(&h, t), res.clone(), kbq && i % 2 == 0));
            }
        }
        ctx.count(&format!("base.long_token.{}KiB", kib));
    }
    run_attacks(ctx, &attacks);
    for a in &long {
        let r = verify(&a.args);
        ctx.evaluations += 1;
        ctx.impl_calls += 1;
        ctx.oracle_checks += 1;
        ctx.count(&format!("case.{}", a.name.split(':').next().unwrap_or("")));
        let case = json!({"attack": a.name, "input_length": a.args.input.len(), "input_sha256": hash(&a.args.input), "fmt": a.args.fmt.name(), "origin": a.origin["flow"]});
        match (&r.out, &a.expect) {
            (Outcome::Ok(_), Expect::Accept) | (Outcome::Err(_), Expect::Reject) => ctx.nontrivial(&json!([a.name, a.args.input.len()])),
            (Outcome::Ok(_), Expect::Reject) => ctx.violation("oracle", "verify", &format!("accepted although it must be rejected ({})", a.name), case, r.out.describe(), json!("Err")),
            (Outcome::Err(_), _) => ctx.violation("oracle", "verify", &format!("rejected although it must be accepted ({})", a.name), case, r.out.describe(), json!("Ok")),
            _ => ctx.violation("oracle", "verify", "the verifier panicked or did not return", case, r.out.describe(), json!("Ok or Err")),
        }
    }
    if let Some(a) = attacks.iter().find(|a| a.name.starts_with("edit-subst-payload")) {
        ctx.sample(json!({"attack": a.name, "input": a.args.input}));
    }
    if let Some(a) = attacks.iter().find(|a| a.name.starts_with("alg-confusion")) {
        ctx.sample(json!({"attack": a.name, "input": a.args.input}));
    }
}

//! The harness's own (implementation-independent) handling of SD-JWT texts, and the
//! construction of model requests with the oracle answers recorded from the real crates.

use crate::imp::*;
use crate::keys::*;
use base64::engine::general_purpose::URL_SAFE_NO_PAD;
use base64::Engine;
use serde_json::{json, Map, Value};

pub fn b64(data: &[u8]) -> String {
    URL_SAFE_NO_PAD.encode(data)
}
pub fn b64_json(v: &Value) -> String {
    b64(serde_json::to_string(v).unwrap().as_bytes())
}
pub fn unb64(s: &str) -> Option<Vec<u8>> {
    URL_SAFE_NO_PAD.decode(s).ok()
}
pub fn unb64_json(s: &str) -> Option<Value> {
    serde_json::from_slice(&unb64(s)?).ok()
}
pub fn hash(s: &str) -> String {
    sd_jwt_rs::utils::base64_hash(s.as_bytes())
}

#[derive(Clone, Debug, PartialEq)]
pub struct Parts {
    pub jwt: String,
    pub disclosures: Vec<String>,
    pub kb: Option<String>,
}

impl Parts {
    pub fn header(&self) -> Option<Value> {
        unb64_json(self.jwt.split('.').next()?)
    }
    pub fn payload(&self) -> Option<Value> {
        unb64_json(self.jwt.split('.').nth(1)?)
    }
    pub fn signature(&self) -> Option<&str> {
        self.jwt.split('.').nth(2)
    }
    pub fn signing_input(&self) -> Option<String> {
        let mut it = self.jwt.rsplitn(2, '.');
        it.next()?;
        it.next().map(String::from)
    }
    pub fn compact(&self) -> String {
        let mut s = self.jwt.clone();
        for d in &self.disclosures {
            s.push('~');
            s.push_str(d);
        }
        s.push('~');
        if let Some(k) = &self.kb {
            s.push_str(k);
        }
        s
    }
    /// kb_style: 0 = absent when None, 1 = null when None
    pub fn json_form(&self, kb_null: bool, extra: Option<(&str, Value)>) -> String {
        let mut it = self.jwt.splitn(3, '.');
        let mut m = Map::new();
        m.insert("protected".into(), json!(it.next().unwrap_or("")));
        m.insert("payload".into(), json!(it.next().unwrap_or("")));
        m.insert("signature".into(), json!(it.next().unwrap_or("")));
        m.insert("disclosures".into(), json!(self.disclosures));
        match &self.kb {
            Some(k) => {
                m.insert("kb_jwt".into(), json!(k));
            }
            None => {
                if kb_null {
                    m.insert("kb_jwt".into(), Value::Null);
                }
            }
        }
        if let Some((k, v)) = extra {
            m.insert(k.into(), v);
        }
        serde_json::to_string(&Value::Object(m)).unwrap()
    }
    pub fn render(&self, fmt: Fmt) -> String {
        match fmt {
            Fmt::Compact => self.compact(),
            Fmt::Json => self.json_form(true, None),
        }
    }
}

/// split an SD-JWT / presentation text (the harness's own reading of the two formats)
pub fn split(fmt: Fmt, s: &str) -> Option<Parts> {
    match fmt {
        Fmt::Compact => {
            let parts: Vec<&str> = s.split('~').collect();
            if parts.len() < 2 {
                return None;
            }
            let kb = parts[parts.len() - 1];
            Some(Parts {
                jwt: parts[0].to_string(),
                disclosures: parts[1..parts.len() - 1].iter().map(|x| x.to_string()).collect(),
                kb: if kb.is_empty() { None } else { Some(kb.to_string()) },
            })
        }
        Fmt::Json => {
            let v: Value = serde_json::from_str(s).ok()?;
            let o = v.as_object()?;
            let ds = o.get("disclosures")?.as_array()?.iter().map(|x| x.as_str().map(String::from)).collect::<Option<Vec<_>>>()?;
            Some(Parts {
                jwt: format!("{}.{}.{}", o.get("protected")?.as_str()?, o.get("payload")?.as_str()?, o.get("signature")?.as_str()?),
                disclosures: ds,
                kb: o.get("kb_jwt").and_then(Value::as_str).map(String::from),
            })
        }
    }
}

pub fn decode_disclosure(d: &str) -> Option<Value> {
    unb64_json(d)
}

pub fn sorted(mut v: Vec<String>) -> Vec<String> {
    v.sort();
    v
}

/// JSON value with every `_sd` array sorted (multiset comparison of digest lists)
pub fn canon_sd(v: &Value) -> Value {
    match v {
        Value::Array(a) => Value::Array(a.iter().map(canon_sd).collect()),
        Value::Object(m) => {
            let mut out = Map::new();
            for (k, x) in m {
                if k == "_sd" {
                    if let Some(a) = x.as_array() {
                        let mut a: Vec<Value> = a.clone();
                        a.sort_by_key(|e| serde_json::to_string(e).unwrap());
                        out.insert(k.clone(), Value::Array(a));
                        continue;
                    }
                }
                out.insert(k.clone(), canon_sd(x));
            }
            Value::Object(out)
        }
        _ => v.clone(),
    }
}

// ---------------------------------------------------------------------------
// model requests

/// every (alg, key, message, signature) the model may ask about for this JWT text:
/// the header's algorithm with each known key of that family, answered by the real crypto
pub fn sig_entries(token: &str, extra: &[(u64, jsonwebtoken::DecodingKey)]) -> Vec<Value> {
    let mut out = vec![];
    let mut it = token.rsplitn(2, '.');
    let (sig, msg) = match (it.next(), it.next()) {
        (Some(s), Some(m)) => (s, m),
        _ => return out,
    };
    let header = match msg.rsplitn(2, '.').nth(1).and_then(unb64_json) {
        Some(h) => h,
        None => return out,
    };
    let alg_name = match header.get("alg").and_then(Value::as_str) {
        Some(a) => a.to_string(),
        None => return out,
    };
    let alg = match alg_of_name(&alg_name) {
        Some(a) => a,
        None => return out,
    };
    let fam = match alg_name.as_str() {
        "HS256" | "HS384" | "HS512" => Fam::Hmac,
        "ES256" | "ES384" => Fam::Ec,
        "EdDSA" => Fam::Ed,
        "RS256" | "RS384" | "RS512" | "PS256" | "PS384" | "PS512" => Fam::Rsa,
        _ => return out,
    };
    for k in ALL_KEYS {
        if k.fam() == fam {
            let ok = std::panic::catch_unwind(|| jsonwebtoken::crypto::verify(sig, msg.as_bytes(), &k.decoding(), alg).unwrap_or(false)).unwrap_or(false);
            out.push(json!({"alg": alg_name, "kid": k.id(), "msg": msg, "sig": sig, "ok": ok}));
        }
    }
    for (id, dk) in extra {
        let ok = std::panic::catch_unwind(|| jsonwebtoken::crypto::verify(sig, msg.as_bytes(), dk, alg).unwrap_or(false)).unwrap_or(false);
        out.push(json!({"alg": alg_name, "kid": id, "msg": msg, "sig": sig, "ok": ok}));
    }
    out
}

fn sign_entry(token: &str) -> Option<Value> {
    let mut it = token.rsplitn(2, '.');
    let sig = it.next()?;
    let msg = it.next()?;
    Some(json!({"msg": msg, "sig": sig}))
}

pub fn issue_request(id: usize, a: &IssueArgs, r: &IssueRes) -> Value {
    let mut signs = vec![];
    if let Outcome::Ok(s) = &r.out {
        if let Some(p) = split(a.fmt, s) {
            if let Some(e) = sign_entry(&p.jwt) {
                signs.push(e);
            }
        }
    }
    let mut rng = json!({"salts": r.salts, "counts": r.counts});
    if let Some(q) = &a.queue {
        rng["queue"] = json!(q);
    }
    json!({
        "id": id, "op": "issue",
        "claims": a.claims, "strategy": a.strategy.json(),
        "holder_jwk": a.holder.and_then(|k| k.jwk_json()),
        "decoy": a.decoy, "fmt": a.fmt.name(),
        "alg": a.alg, "key": a.key.json(),
        "rng": rng, "signs": signs,
    })
}

pub fn holder_request(id: usize, input: &str, fmt: Fmt, calls: &[PresentArgs], res: &HolderRes) -> Value {
    let mut signs = vec![];
    let mut cs = vec![];
    for (i, c) in calls.iter().enumerate() {
        let mut now = res.calls.get(i).map(|r| r.t0).unwrap_or(0);
        if let Some(Outcome::Ok(s)) = res.calls.get(i).map(|r| &r.out) {
            if let Some(p) = split(fmt, s) {
                if let Some(kb) = &p.kb {
                    if let Some(e) = sign_entry(kb) {
                        signs.push(e);
                    }
                    if let Some(iat) = kb.split('.').nth(1).and_then(unb64_json).and_then(|v| v.get("iat").and_then(Value::as_u64)) {
                        now = iat;
                    }
                }
            }
        }
        cs.push(json!({"sel": c.sel, "nonce": c.nonce, "aud": c.aud, "key": c.key.map(|k| k.json()), "alg": c.alg, "now": now}));
    }
    json!({"id": id, "op": "holder", "input": input, "fmt": fmt.name(), "calls": cs, "signs": signs})
}

pub fn verify_request(id: usize, a: &VerifyArgs, now: u64) -> Value {
    let mut sigs = vec![];
    let mut jwks = vec![];
    if let Some(p) = split(a.fmt, &a.input) {
        sigs.extend(sig_entries(&p.jwt, &[]));
        // the holder key the payload confirms, if any
        let mut extra = vec![];
        if let Some(jwk) = p.payload().and_then(|pl| pl.get("cnf").and_then(|c| c.get("jwk")).cloned()) {
            let ans = jwk_oracle(&jwk);
            if ans.get("id").and_then(Value::as_u64) == Some(900) {
                if let Some(dk) = decoding_for_jwk(&jwk) {
                    extra.push((900u64, dk));
                }
            }
            jwks.push(json!({"jwk": jwk, "key": ans}));
        }
        // in the compact form an empty last part is still handed to the KB check
        let kb_text = match (&p.kb, a.fmt) {
            (Some(k), _) => Some(k.clone()),
            (None, _) => None,
        };
        if let Some(kb) = kb_text {
            sigs.extend(sig_entries(&kb, &extra));
        }
    }
    json!({
        "id": id, "op": "verify", "input": a.input, "fmt": a.fmt.name(),
        "resolver": a.resolver.json(), "aud": a.aud, "nonce": a.nonce, "now": now,
        "sigs": sigs, "jwks": jwks,
    })
}

#!/bin/bash
# validate_seed.sh <worktree> <patch.diff> <demo.rs> : confirms a seeded change in a scratch worktree of /repo:
#   the patch applies, the crate builds with each feature, the existing suite passes with it,
#   the demonstration passes without the patch and fails with it.  Prints one summary line.
set -u
WT=$1; PATCH=$2; DEMO=$3
export CARGO_NET_OFFLINE=true
cd "$WT" || exit 2
git checkout -q -- . ; rm -f tests/seed_demo.rs
cp "$DEMO" tests/seed_demo.rs
demo_clean=$(cargo test --offline ${DEMO_FEATURES:-} --test seed_demo 2>&1 | grep -E "^test result" | tail -1)
git apply "$PATCH" || { echo "RESULT patch-does-not-apply"; exit 1; }
b1=$(cargo build --offline --features verif_hooks 2>&1 | grep -c "^error")
b2=$(cargo build --offline --features mock_salts 2>&1 | grep -c "^error")
rm -f tests/seed_demo.rs
suite=$(cargo test --workspace --no-fail-fast --offline 2>&1 | grep -E "^test result" | tr '\n' ';')
cp "$DEMO" tests/seed_demo.rs
demo_mut=$(cargo test --offline ${DEMO_FEATURES:-} --test seed_demo 2>&1 | grep -E "^test result" | tail -1)
rm -f tests/seed_demo.rs; git checkout -q -- .
echo "RESULT demo_clean=[$demo_clean] build_err_hooks=$b1 build_err_mock=$b2 suite=[$suite] demo_mut=[$demo_mut]"

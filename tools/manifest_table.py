# exec'd by gen_manifest.py: claim(pid, level, technique, text, note); NOT_CLAIMED = {pid: reason}
NOT_CLAIMED = {}

TV = "translation_validation"
PR = "proof"
TECH_TV = "Coq model + differential correspondence + extracted specification oracle"
TECH_PR = "machine-checked proof in Coq (theorems over an executable model, pinned in coq/Properties) + differential correspondence of the model with the implementation"
INTERIM = "interim level until coq/Properties/%s.v holds the pinned theorems; " + TB
NOTE_PR = ("theorems in coq/Properties/%s.v re-checked by coqc on every run with Print Assumptions audited (closed under the global context); "
           "the model they speak about is tied to /repo by the correspondence run of the same check; %s; " + TB)

claim("C01", TV, TECH_TV,
      "Executable Coq model of issuer, holder and verifier compared stage by stage with the implementation on generated flows, plus the "
      "extracted specification (selected view) evaluated on the implementation's output. Proved so far (coq/Proofs): the issuer emits "
      "payload_of/disclosures_of of a digest tree whose flags are the marking (IssuerBuild), the verifier's unpacking computes exactly the view "
      "of that tree for any disclosure list (UnpackView), the codec law (DisclosureCodec); the holder half and the end-to-end composition are "
      "not yet pinned, hence the level.",
      INTERIM % "C01")
claim("C02", PR, TECH_PR,
      "Theorem C02_accept_implies_verified: for every input, acceptance implies that the signature oracle accepted exactly the presented "
      "header.payload text under the resolver's key for the unverified iss, with the header's algorithm (known name, key's family), and that "
      "the claims are computed from that verified payload; C02_tamper under an explicit unforgeability premise; alg/family lemmas. "
      "Every enumerated tampering (single-character edits at every position, non-alphabet characters, part swaps, re-signing, alg rewrites, "
      "resolver variations) is run on the implementation and on the model fed with the real cryptography's answers.",
      NOTE_PR % ("C02", "cryptographic strength of signatures is a premise (unforgeable), malleability of the signature part is decided by the real crates in the runs"))
claim("C05", PR, TECH_PR,
      "Theorems: the issuer's tree walk marks exactly the positions the independent path grammar designates (C05_marking*, all four "
      "strategies, top-level iss/iat/exp exempt, malformed prefix refused, unmatched path without effect); the signed payload is payload_of a "
      "digest tree with those flags — one digest per hidden claim at its own position, everything else in clear, disclosures [salt,name?,value] "
      "with digest H(base64url text), _sd_alg sha-256 (C05_shape) — and no digest occurs twice (C05_digests_unique). The run re-derives payload "
      "and disclosures from the logged draws and checks marking, placement, recomputation and the structural leak rule on the implementation.",
      NOTE_PR % ("C05", "premises: member names without a leading '[' (the property's quantifier), injective digest oracle, pairwise distinct 22-character ASCII salts"))
claim("C06", PR, TECH_PR,
      "Theorems: for every type-consistent selection the holder's walk returns exactly the raw texts of the disclosures the specification "
      "`designated` lists — each once, only hidden claims' disclosures, never a decoy, descending only through selected claims "
      "(C06_walk_designated, C06_exactly_selected, C06_designated_positions); for ARBITRARY selection JSON whatever is returned consists of "
      "genuine disclosures only, each at most once, each with all its hidden ancestors (C06_weak); create_presentation never panics. The run "
      "compares the holder with the model and with the extracted `designated`, checks byte-identity of the JWT, the compact shape and the "
      "KB-JWT-iff-requested rule on the implementation.",
      NOTE_PR % ("C06", "premises: the digest map is genuine for the credential (discharged from the codec law and an injective digest oracle in Proofs/UnpackView, WalkSel.genuine_of_disclosures)"))
claim("C09", PR, TECH_PR,
      "Theorem C09_window: for every input, format, disclosure list and key-binding setting, acceptance implies a numeric exp e with "
      "now <= e + 60 and, when the signed payload carries a numeric nbf n, n <= now + 60 (absent / null / string / negative exp is never "
      "accepted); C09_in_window_not_rejected: inside the window validation does not fail. Honest flows with exp / nbf placed relative to the "
      "bracketed clock are run on implementation and model.",
      NOTE_PR % ("C09", "the clock is a parameter of the model; the jsonwebtoken Validation logic is restated in Model/Jwt.v and checked differentially"))
claim("C12", PR, TECH_PR,
      "Theorems: the `_sd` sort order is a total order and the emitted list is a function of the SET of digests (C12_sort_canonical, C12_order) "
      "so order reveals neither member order nor decoys; with decoys on each object draws one count c and appends exactly c digests H(fresh "
      "draw), every object of the body has a decoy when counts >= DECOY_MIN (constant regenerated from the source); with decoys off every "
      "digest is an issued disclosure's; digests matching no presented disclosure never change the verifier's result (unpack_view). The run "
      "compares `_sd` lists in exact order with the model and evaluates the property's statistical rule as written.",
      NOTE_PR % ("C12", "premise: decoy counts in [DECOY_MIN, DECOY_MAX) as rand's gen_range yields; indistinguishability beyond order/form rests on SHA-256 (premise)"))
claim("C13", PR, TECH_PR,
      "Theorems: has_reserved decides exactly `some object anywhere has a member named _sd or ...` (C13_has_reserved_spec); such claims are "
      "refused under every strategy, format, key and randomness (C13_reserved_rejected); claims without such members are never refused for "
      "that reason (C13_no_false_alarm). Reserved names are planted at every position of generated trees, with the unplanted control.",
      NOTE_PR % ("C13", "no idealisation involved"))
claim("C14", PR, TECH_PR,
      "Proved (logic half): an issuance consumes one stream position per disclosure and per decoy (C14_one_draw_each), consecutive issuances "
      "consume disjoint segments, and for any number of threads with their own streams and ANY interleaving all salts and decoy pre-images of "
      "all credentials are pairwise distinct when the stream elements are (C14_any_schedule); a salt is the 22-character base64url text of "
      "SALT_LEN = 16 bytes, >= 128 bits, with SALT_LEN regenerated from the source (C14_salt_shape); every embedded digest is H of the "
      "disclosure's base64url text (C14_digest_of_text). Partial: that ThreadRng is a properly seeded CSPRNG with independent per-thread "
      "state is a runtime fact no executable model exhibits; the run covers it by observation: 1-16 threads, every logged draw decoded, all "
      "salts and decoy digests of the run compared pairwise, the model replayed on the logged draws, per-bit frequency within 8 sigma.",
      NOTE_PR % ("C14", "PARTIAL: CSPRNG quality / thread-local independence are observed, not proved; premise of the theorems: pairwise distinct stream elements"))
claim("C16", PR, TECH_PR,
      "Theorems about the model of the mock_salts build: the queue loses exactly one salt per disclosure from the front in creation order "
      "(C16_consumes_in_order); issuance is a function of claims, strategy and queue and, with decoys off, independent of the random streams "
      "(C16_deterministic, C16_stream_independent); the Python-style spacing scanner equals printing with ', ' / ': ' separators and the spaced "
      "disclosure text parses back to exactly [salt, name?, value] for every value, including commas, colons, brackets, quotes, backslashes, "
      "runs of spaces and non-BMP characters (C16_values_preserved*). The run (harness built with the feature) checks consumption, "
      "byte-identity over repeated issuances, value recovery through holder and verifier, and byte-for-byte agreement with the model.",
      NOTE_PR % ("C16", "scope of the queue: pairwise distinct salts over the base64url alphabet (DESIGN.md 6 C16); nesting depth < 127 for the codec law"))

# exec'd by gen_manifest.py: claim(pid, level, technique, text, note); NOT_CLAIMED = {pid: reason}
NOT_CLAIMED = {}

TV = "translation_validation"
PR = "proof"
TECH_TV = "Coq model + differential correspondence + extracted specification oracle"
TECH_PR = "machine-checked proof in Coq (theorems over an executable model, pinned in coq/Properties) + differential correspondence of the model with the implementation"
INTERIM = "interim level until coq/Properties/%s.v holds the pinned theorems; " + TB
NOTE_PR = ("theorems in coq/Properties/%s.v re-checked by coqc on every run with Print Assumptions audited (closed under the global context); "
           "the model they speak about is tied to /repo by the correspondence run of the same check; %s; " + TB)

claim("C01", PR, TECH_PR,
      "Theorems C01_roundtrip_compact / _json / _kb / _kb_json: for every claims object, strategy, decoy flag, signing algorithm, randomness, "
      "format, key-binding setting and type-consistent selection, the issued SD-JWT is accepted by the holder, the presentation is exactly the "
      "issuer-signed JWT with the designated disclosures (and the KB-JWT), the verifier accepts it, and the verified claims equal — up to member "
      "order — the issued claims with exactly the hidden nodes not designated by the selection erased (+cnf); select-nothing, select-all and "
      "no-marker corollaries; the tree's hidden flags, the view and the designation are tied to the position-level specifications of Spec/Path.v "
      "and Spec/View.v (C01_marking_is_spec, C01_view_is_spec, C01_designated_is_spec). Composes IssuerBuild, WalkSel, UnpackView, the codec law "
      "(DisclosureCodec, JsonRoundtrip) and the JWT layer. The run executes honest flows on the implementation and the model and evaluates the "
      "extracted specification on the implementation's output.",
      NOTE_PR % ("C01", "premises (Proofs/RoundTrip.v oracle_ok, rng_ok, claims_ok, jwt_claims_ok): injective digest oracle, own signatures verify and contain no separator, "
                 "pairwise distinct plain 22-character salts, claims within the property's quantifier (scalar strings, JSON number lexemes, no _sd_alg / aud, exp in the window, nesting <= 126)"))
claim("C02", PR, TECH_PR,
      "Theorem C02_accept_implies_verified: for every input, acceptance implies that the signature oracle accepted exactly the presented "
      "header.payload text under the resolver's key for the unverified iss, with the header's algorithm (known name, key's family), and that "
      "the claims are computed from that verified payload; C02_tamper under an explicit unforgeability premise; alg/family lemmas. "
      "Every enumerated tampering (single-character edits at every position, non-alphabet characters, part swaps, re-signing, alg rewrites, "
      "resolver variations) is run on the implementation and on the model fed with the real cryptography's answers.",
      NOTE_PR % ("C02", "cryptographic strength of signatures is a premise (unforgeable), malleability of the signature part is decided by the real crates in the runs"))
claim("C05", PR, TECH_PR,
      "Theorems: the issuer's tree walk marks exactly the positions the independent path grammar designates (C05_marking*, all four "
      "strategies, top-level iss/iat/exp exempt, malformed prefix refused, unmatched path without effect); the signed payload is payload_of a "
      "digest tree with those flags — one digest per hidden claim at its own position, everything else in clear, disclosures [salt,name?,value] "
      "with digest H(base64url text), _sd_alg sha-256 (C05_shape) — and no digest occurs twice (C05_digests_unique). The run re-derives payload "
      "and disclosures from the logged draws and checks marking, placement, recomputation and the structural leak rule on the implementation.",
      NOTE_PR % ("C05", "premises: member names without a leading '[' (the property's quantifier), injective digest oracle, pairwise distinct 22-character ASCII salts"))
claim("C06", PR, TECH_PR,
      "Theorems: for every type-consistent selection the holder's walk returns exactly the raw texts of the disclosures the specification "
      "`designated` lists — each once, only hidden claims' disclosures, never a decoy, descending only through selected claims "
      "(C06_walk_designated, C06_exactly_selected, C06_designated_positions); for ARBITRARY selection JSON whatever is returned consists of "
      "genuine disclosures only, each at most once, each with all its hidden ancestors (C06_weak); create_presentation never panics. The run "
      "compares the holder with the model and with the extracted `designated`, checks byte-identity of the JWT, the compact shape and the "
      "KB-JWT-iff-requested rule on the implementation.",
      NOTE_PR % ("C06", "premises: the digest map is genuine for the credential (discharged from the codec law and an injective digest oracle in Proofs/UnpackView, WalkSel.genuine_of_disclosures)"))
claim("C09", PR, TECH_PR,
      "Theorem C09_window: for every input, format, disclosure list and key-binding setting, acceptance implies a numeric exp e with "
      "now <= e + 60 and, when the signed payload carries a numeric nbf n, n <= now + 60 (absent / null / string / negative exp is never "
      "accepted); C09_in_window_not_rejected: inside the window validation does not fail. Honest flows with exp / nbf placed relative to the "
      "bracketed clock are run on implementation and model.",
      NOTE_PR % ("C09", "the clock is a parameter of the model; the jsonwebtoken Validation logic is restated in Model/Jwt.v and checked differentially"))
claim("C12", PR, TECH_PR,
      "Theorems: the `_sd` sort order is a total order and the emitted list is a function of the SET of digests (C12_sort_canonical, C12_order) "
      "so order reveals neither member order nor decoys; with decoys on each object draws one count c and appends exactly c digests H(fresh "
      "draw), every object of the body has a decoy when counts >= DECOY_MIN (constant regenerated from the source); with decoys off every "
      "digest is an issued disclosure's; digests matching no presented disclosure never change the verifier's result (unpack_view). The run "
      "compares `_sd` lists in exact order with the model and evaluates the property's statistical rule as written.",
      NOTE_PR % ("C12", "premise: decoy counts in [DECOY_MIN, DECOY_MAX) as rand's gen_range yields; indistinguishability beyond order/form rests on SHA-256 (premise)"))
claim("C13", PR, TECH_PR,
      "Theorems: has_reserved decides exactly `some object anywhere has a member named _sd or ...` (C13_has_reserved_spec); such claims are "
      "refused under every strategy, format, key and randomness (C13_reserved_rejected); claims without such members are never refused for "
      "that reason (C13_no_false_alarm). Reserved names are planted at every position of generated trees, with the unplanted control.",
      NOTE_PR % ("C13", "no idealisation involved"))
claim("C14", PR, TECH_PR,
      "Proved (logic half): an issuance consumes one stream position per disclosure and per decoy (C14_one_draw_each), consecutive issuances "
      "consume disjoint segments, and for any number of threads with their own streams and ANY interleaving all salts and decoy pre-images of "
      "all credentials are pairwise distinct when the stream elements are (C14_any_schedule); a salt is the 22-character base64url text of "
      "SALT_LEN = 16 bytes, >= 128 bits, with SALT_LEN regenerated from the source (C14_salt_shape); every embedded digest is H of the "
      "disclosure's base64url text (C14_digest_of_text). Partial: that ThreadRng is a properly seeded CSPRNG with independent per-thread "
      "state is a runtime fact no executable model exhibits; the run covers it by observation: 1-16 threads, every logged draw decoded, all "
      "salts and decoy digests of the run compared pairwise, the model replayed on the logged draws, per-bit frequency within 8 sigma.",
      NOTE_PR % ("C14", "PARTIAL: CSPRNG quality / thread-local independence are observed, not proved; premise of the theorems: pairwise distinct stream elements"))
claim("C16", PR, TECH_PR,
      "Theorems about the model of the mock_salts build: the queue loses exactly one salt per disclosure from the front in creation order "
      "(C16_consumes_in_order); issuance is a function of claims, strategy and queue and, with decoys off, independent of the random streams "
      "(C16_deterministic, C16_stream_independent); the Python-style spacing scanner equals printing with ', ' / ': ' separators and the spaced "
      "disclosure text parses back to exactly [salt, name?, value] for every value, including commas, colons, brackets, quotes, backslashes, "
      "runs of spaces and non-BMP characters (C16_values_preserved*). The run (harness built with the feature) checks consumption, "
      "byte-identity over repeated issuances, value recovery through holder and verifier, and byte-for-byte agreement with the model.",
      NOTE_PR % ("C16", "scope of the queue: pairwise distinct salts over the base64url alphabet (DESIGN.md 6 C16); nesting depth < 127 for the codec law"))

claim("C03", PR, TECH_PR,
      "Theorem C03_any_disclosure_list: for a genuine credential (digest tree D with digests_ok, injective H, codec law) and ANY list of "
      "strings accepted by create_hash_mappings — none hashing to a decoy digest — the verifier's unpacking returns exactly view_d(opened L) D: a "
      "hidden claim appears iff its genuine disclosure string is in the list and so are its hidden ancestors'; the result depends only on the set "
      "of strings (C03_same_set, C03_permutation); a repeated string is rejected (C03_repeat_rejected). The run hand-assembles presentations from "
      "subsets, permutations, altered / re-serialized / re-padded / truncated / forged / foreign / duplicated / garbage disclosures and judges "
      "the implementation against the extracted `view`.",
      NOTE_PR % ("C03", "premises: H injective, secrecy of decoy pre-images (no presented string hashes to a decoy digest)"))
claim("C04", PR, TECH_PR,
      "Theorem C04_kb_enforced: acceptance with expected aud and nonce, in both formats, implies a KB-JWT of type kb+jwt verified by the oracle "
      "under the key of the VERIFIED payload's cnf.jwk, naming that nonce and audience, whose sd_hash is the digest of exactly the presented "
      "jwt~d1~..~dn~; with an injective digest oracle the hashed text determines JWT and disclosure sequence (C04_sd_hash_binds, "
      "C04_kb_replay_compact); one of aud/nonce alone is an error; honest key-bound presentations are accepted (C01_roundtrip_kb*). The run "
      "executes the property's attack list with the real cryptography.",
      NOTE_PR % ("C04", "cryptographic strength of signatures is outside the model (the oracle's answer is what is bound); H injective for the replay corollaries"))
claim("C07", PR, TECH_PR,
      "Theorem C07_no_panic: every model entry point returns Ok or Err on ANY input — no Panic, no OutOfFuel (the model marks every unchecked "
      "index / unwrap of the Rust code as Panic and uses fuel only where recursion is not structural); Unmodelled only in eight listed dialect "
      "corners; termination of unpacking on adversarial input by pigeonhole (C07_unpack_fuel_enough); parser fuel adequate. Partial: stack "
      "exhaustion and panics inside dependencies are runtime facts; the run covers them by executing garbage, grammar-based, mutated, "
      "validly-signed-malformed, wild-selection and odd issuer inputs under catch_unwind + watchdog and comparing outcome classes with the model.",
      NOTE_PR % ("C07", "PARTIAL: stack depth, dependency panics and non-termination inside serde_json / base64 / jsonwebtoken / ring are observed, not proved"))
claim("C08", PR, TECH_PR,
      "Theorem C08_verify_refines_spec: whenever the verifier returns claims, for any input, they are exactly the result of the draft-07 8.1 "
      "disclosure-processing algorithm (Spec/Draft07.v) on the verified payload and the presented disclosures; never more lenient "
      "(C08_never_more_lenient); each MUST-reject of the property proved directly for all inputs (duplicate digests anywhere, wrong arity / kind, "
      "reserved or colliding names, foreign _sd_alg). The run signs arbitrary payloads itself and judges the implementation against the "
      "extracted specification.",
      NOTE_PR % ("C08", "the restatement of draft-07 8.1 in Spec/Draft07.v is trusted (written from the property's MUST list)"))
claim("C10", PR, TECH_PR,
      "Theorem C10_verify_transcode: for EVERY abstract presentation — honest or tampered — the verifier makes the same decision and returns "
      "the same claims on its compact text and on its JSON text (kb_jwt absent / null / string, unknown extra members), in both directions and "
      "for any JSON spelling (C10_verify_json_to_compact, C10_verify_compact_to_json); holders built from either form select the same "
      "disclosures; C10_verify_transcode_raw extends this to JSON texts whose unknown members are ANY texts serde's syntactic skipping accepts "
      "(any nesting depth, any number size), placed anywhere among the known members, the model reading the JSON form as serde does "
      "(C10_unknown_members_lax). The run transcodes honest and tampered inputs (C02-C04 generators) both ways on the implementation, with raw "
      "unknown members, other spellings of the envelope and re-signed headers.",
      NOTE_PR % ("C10", "side condition: parts expressible in both formats (no '~' in any part, no '.' inside a JWT part)"))
claim("C11", PR, TECH_PR,
      "Theorems: the issuer as a state machine with every field of the Rust struct computes, from ANY state, what a fresh instance computes "
      "(C11_issuer_call_is_fresh, C11_issuer_history over arbitrary call sequences incl. failing calls); a holder's result depends only on what "
      "new() parsed, which every call preserves (C11_holder_*). The run drives sequences of 1..8 calls on one issuer / holder instance against "
      "fresh instances and the model.",
      NOTE_PR % ("C11", "the machine of Model/Machines.v restates issue_sd_jwt / create_presentation field by field; tied by the history runs"))
claim("C15", PR, TECH_PR,
      "Theorems C15_narrowing / C15_same_digests / C15_chain_holders: a holder built from a presentation (any genuine digest map covering the "
      "first selection) selects, for a refined selection, exactly the disclosures selecting directly from the issued SD-JWT would, over chains of "
      "any length; refinement only deselects (C15_incl); verified claims then agree by C01. The run executes chains of up to 4 narrowing steps "
      "in both formats against direct selection, the verifier and the model.",
      NOTE_PR % ("C15", "premises as C06"))

# exec'd by gen_manifest.py: claim(pid, level, technique, text, note); NOT_CLAIMED = {pid: reason}
NOT_CLAIMED = {}

TV = "translation_validation"
TECH_TV = "Coq model + differential correspondence + extracted specification oracle"
INTERIM = "interim level until coq/Properties/%s.v holds the pinned theorems; " + TB

claim("C01", TV, TECH_TV,
      "Executable Coq model of issuer, holder and verifier compared stage by stage with the implementation on generated flows, plus the "
      "extracted specification (selected view) evaluated on the implementation's output; theorems over the model are being added.",
      INTERIM % "C01")
claim("C02", TV, TECH_TV,
      "Every enumerated tampering of honest presentations (single-character edits at every position of header/payload/signature, part swaps, "
      "re-signing, alg rewrites, resolver variations) run on the implementation and on the Coq model fed with the real cryptography's answers; "
      "must-reject / must-accept judged directly on the implementation.",
      INTERIM % "C02")
claim("C05", TV, TECH_TV,
      "The model, given the logged random draws, predicts payload and disclosures exactly; the independent path-grammar specification "
      "(Spec/Path.v) decides which positions must be hidden; digest placement, uniqueness, recomputation and the structural leak rule are "
      "checked on the implementation's output.",
      INTERIM % "C05")
claim("C06", TV, TECH_TV,
      "Holder model compared with the implementation on generated selections; the extracted specification `designated` decides which "
      "disclosures a type-consistent selection must carry; the weak form is checked for arbitrary selection JSON.",
      INTERIM % "C06")
claim("C09", TV, TECH_TV,
      "Honest flows whose exp / nbf are placed relative to the bracketed clock (never within 120 s of a boundary) run on implementation and "
      "model; must-reject / must-accept judged on the implementation.",
      INTERIM % "C09")
claim("C12", TV, TECH_TV,
      "_sd lists compared in exact order with the model's (decoy digests = H of the logged draws); presence, uniqueness, form and inertness "
      "of decoys and the property's statistical order-leak rule evaluated on the implementation's output.",
      INTERIM % "C12")
claim("C13", TV, TECH_TV,
      "Reserved member names planted at every position of generated claim trees, with the unplanted control; issuer model compared with the "
      "implementation; refusal judged on the implementation.",
      INTERIM % "C13")

#!/usr/bin/env python3
"""store_seed.py <prop> <A|B> <outdir> <validation log>: keeps a confirmed seeded change as /verif/seeded/<prop>-<X>/"""
import json, os, re, shutil, sys
prop, X, out, log = sys.argv[1:5]
Y = sys.argv[5] if len(sys.argv) > 5 else X   # name under which it is kept (second round: A -> C, B -> D)
line = [l for l in open(log) if l.startswith("%s-%s " % (prop, X))][-1]
ok = ("demo_clean=[test result: ok" in line and "build_err_hooks=0" in line and "build_err_mock=0" in line
      and "demo_mut=[test result: FAILED" in line and "FAILED" not in line.split("suite=[")[1].split("]")[0]
      and "128 passed" in line)
if not ok:
    print("NOT CONFIRMED:", line); sys.exit(1)
d = "/verif/seeded/%s-%s" % (prop, Y)
os.makedirs(d, exist_ok=True)
shutil.copy(os.path.join(out, X + ".patch.diff"), os.path.join(d, "patch.diff"))
shutil.copy(os.path.join(out, X + ".demo.rs"), os.path.join(d, "demo.rs"))
notes = open(os.path.join(out, X + ".notes.md")).read()
open(os.path.join(d, "notes.md"), "w").write(notes)
first = [l.strip() for l in notes.splitlines() if l.strip() and not l.startswith("#")]
meta = {"property": prop, "id": "%s-%s" % (prop, Y),
        "summary": (notes.splitlines()[0].lstrip("# ").strip() if notes else ""),
        "needs_to_manifest": "see notes.md (written by the independent sub-agent that produced the change)",
        "origin": "fresh sub-agent given only the property text and a scratch worktree of /repo",
        "confirmed_by": "tools/validate_seed.sh in the scratch worktree: patch applies; builds with verif_hooks and mock_salts; "
                        "existing suite (17+128+1) passes with the change; demo passes without and fails with the change",
        "validation": line.strip()[:1500]}
json.dump(meta, open(os.path.join(d, "meta.json"), "w"), indent=1)
print("stored", d)

#!/bin/bash
# mut_setup.sh <prop>...: fresh scratch worktree /tmp/mut-<prop> of /repo, the property text, and the list of earlier seeded changes
for p in "$@"; do
  git -C /repo worktree remove --force /tmp/mut-$p 2>/dev/null; rm -rf /tmp/mut-$p /tmp/mut-$p-out
  git -C /repo worktree prune
  git -C /repo worktree add --detach /tmp/mut-$p HEAD >/dev/null 2>&1
  mkdir -p /tmp/mut-$p-out
  python3 - "$p" <<'P'
import json,sys,glob,os,re
p=sys.argv[1]
for l in open('/verif/properties.jsonl'):
    d=json.loads(l)
    if d['id']==p:
        open(f'/tmp/mut-{p}-prop.txt','w').write(json.dumps(d,indent=1))
out=["Changes already produced for this property in earlier rounds (do NOT repeat these mechanisms or code sites; find different ones):"]
for n in sorted(glob.glob(f'/verif/seeded/{p}-*/notes.md')):
    t=open(n).read()
    out.append("- "+re.sub(r'\s+',' ',t[:260]))
open(f'/tmp/mut-{p}-prev.txt','w').write("\n".join(out)+"\n")
P
done

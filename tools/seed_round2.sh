#!/bin/bash
# seed_round2.sh <prop>...: validate the round-2 outputs /tmp/mut-<prop>-out/{A,B}.* and keep them as <prop>-C / <prop>-D
for p in "$@"; do
  feat=""; [ "$p" = "C16" ] && feat="--features mock_salts"
  ( for X in A B; do echo "$p-$X $(DEMO_FEATURES="$feat" /verif/tools/validate_seed.sh /tmp/mut-$p /tmp/mut-$p-out/$X.patch.diff /tmp/mut-$p-out/$X.demo.rs 2>&1 | grep RESULT)"; done ) > /tmp/val2-$p.log 2>&1
  python3 /verif/tools/store_seed.py $p A /tmp/mut-$p-out /tmp/val2-$p.log C
  python3 /verif/tools/store_seed.py $p B /tmp/mut-$p-out /tmp/val2-$p.log D
done

#!/usr/bin/env python3
"""Runs the registered checks against the seeded changes kept under /verif/seeded/<id>/.

For every seeded/<id>/ (patch.diff, meta.json with "property" and optionally "also": [other property ids]):
  git -C /repo apply patch.diff ; ./check <property> --tier <tier> ; git -C /repo checkout -- . (always, even on error)
and reports whether the check raised a VIOLATION (= the seeded change is caught).  Evidence files written by these
runs describe a modified tree, so they are restored afterwards by re-running nothing: the caller should re-run the checks on
the clean tree before committing evidence (this tool saves and restores the evidence files it would overwrite).

With --scratch nothing under /repo or /verif is touched: a detached worktree of /repo's HEAD (/tmp/seed-repo) and a copy
of /verif (/tmp/seed-verif, harness pointed at the worktree) are used instead, so it can run while other work uses /repo.

usage: tools/run_seeded.py [--scratch] [--tier quick|thorough] [id ...]       (default: all ids, quick)
Writes seeded/RESULTS.json  ({id: {property, caught, by, line, wall_s}}).
"""
import json
import os
import shutil
import subprocess
import sys
import time

ROOT = os.path.dirname(os.path.dirname(os.path.abspath(__file__)))
REPO = "/repo"
SEEDED = os.path.join(ROOT, "seeded")


def sh(cmd, **kw):
    return subprocess.run(cmd, stdout=subprocess.PIPE, stderr=subprocess.STDOUT, text=True, **kw)


def clean_repo():
    sh(["git", "-C", REPO, "checkout", "--", "."])
    st = sh(["git", "-C", REPO, "status", "--porcelain"]).stdout.strip()
    return st == ""


def setup_scratch():
    global ROOT, REPO
    slot = os.environ.get("SEED_SLOT", "")
    srepo, sverif = "/tmp/seed-repo" + slot, "/tmp/seed-verif" + slot
    sh(["git", "-C", "/repo", "worktree", "remove", "--force", srepo])
    shutil.rmtree(srepo, ignore_errors=True)
    r = sh(["git", "-C", "/repo", "worktree", "add", "-q", "--detach", srepo, "HEAD"])
    if r.returncode != 0:
        print(r.stdout)
        sys.exit(2)
    sh(["rsync", "-a", "--delete", "--exclude", ".git", ROOT + "/", sverif + "/"])
    for f in ("harness/Cargo.toml",):
        p = os.path.join(sverif, f)
        t = open(p).read().replace('path = "/repo"', 'path = "%s"' % srepo)
        open(p, "w").write(t)
    ROOT, REPO = sverif, srepo
    os.environ["VERIF_REPO"] = srepo


def teardown_scratch():
    srepo = "/tmp/seed-repo" + os.environ.get("SEED_SLOT", "")
    sh(["git", "-C", "/repo", "worktree", "remove", "--force", srepo])
    shutil.rmtree(srepo, ignore_errors=True)


def merge_slots():
    import glob
    main_file = os.path.join(SEEDED, "RESULTS.json")
    results = {}
    try:
        results = json.load(open(main_file))
    except Exception:
        pass
    for f in sorted(glob.glob(os.path.join(SEEDED, "RESULTS.slot*.json"))):
        results.update(json.load(open(f)))
        os.remove(f)
    json.dump(results, open(main_file, "w"), indent=1, sort_keys=True)
    print("merged: %d entries" % len(results))


def main():
    args = sys.argv[1:]
    if "--merge" in args:
        merge_slots()
        return 0
    scratch = "--scratch" in args
    if scratch:
        args.remove("--scratch")
    tier = "quick"
    if "--tier" in args:
        i = args.index("--tier")
        tier = args[i + 1]
        del args[i:i + 2]
    ids = args or sorted(d for d in os.listdir(SEEDED) if os.path.isdir(os.path.join(SEEDED, d)))
    if scratch:
        setup_scratch()
    if sh(["git", "-C", REPO, "status", "--porcelain"]).stdout.strip():
        print("refusing to run: /repo has uncommitted changes")
        return 2
    results = {}
    # with SEED_SLOT=<n> (several runs side by side) each run keeps its own results file; merge them with --merge afterwards
    results_file = os.path.join(SEEDED, "RESULTS%s.json" % (".slot" + os.environ["SEED_SLOT"] if os.environ.get("SEED_SLOT") else ""))
    try:
        results = json.load(open(results_file))
    except Exception:
        pass
    for sid in ids:
        d = os.path.join(SEEDED, sid)
        meta = json.load(open(os.path.join(d, "meta.json")))
        props = [meta["property"]] + meta.get("also", [])
        patch = os.path.join(d, "patch.diff")
        r = sh(["git", "-C", REPO, "apply", patch])
        if r.returncode != 0:
            print("%s: patch does not apply: %s" % (sid, r.stdout[-500:]))
            results[sid] = {"property": meta["property"], "caught": None, "error": "patch does not apply"}
            clean_repo()
            continue
        caught_by = []
        line = ""
        t0 = time.time()
        try:
            for pid in props:
                ev = os.path.join(ROOT, "evidence", pid + ".json")
                bak = ev + ".seedbak"
                if os.path.exists(ev):
                    shutil.copy(ev, bak)
                r = sh([os.path.join(ROOT, "check"), pid, "--tier", tier], cwd=ROOT)
                if os.path.exists(bak):
                    shutil.move(bak, ev)
                v = [l for l in r.stdout.splitlines() if l.startswith("VIOLATION")]
                if r.returncode != 0 and v:
                    caught_by.append(pid)
                    line = line or v[0]
                    fo = [l for l in r.stdout.splitlines() if "FAILED obligation" in l]
                    if fo:
                        line += " || " + fo[0][:300]
                if caught_by and pid == meta["property"]:
                    break
        finally:
            ok = clean_repo()
        results[sid] = {"property": meta["property"], "caught": bool(caught_by), "by": caught_by, "line": line,
                        "tier": tier, "wall_s": round(time.time() - t0, 1)}
        print("%s: %s %s" % (sid, "CAUGHT by " + ",".join(caught_by) if caught_by else "MISSED", line[:200]))
        if not ok:
            print("could not restore /repo; stopping")
            break
    json.dump(results, open(results_file, "w"), indent=1, sort_keys=True)
    if scratch:
        teardown_scratch()
    return 0


if __name__ == "__main__":
    sys.exit(main())

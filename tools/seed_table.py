#!/usr/bin/env python3
"""prints the markdown table of seeded changes and which check catches them (from seeded/*/meta.json, notes.md and seeded/RESULTS.json)"""
import glob, json, os, re
res = json.load(open('/verif/seeded/RESULTS.json'))
print("| seeded change | property | what it breaks (from the sub-agent's notes) | caught by | how |")
print("|---|---|---|---|---|")
for d in sorted(glob.glob('/verif/seeded/C*-*')):
    sid = os.path.basename(d)
    notes = open(os.path.join(d, 'notes.md')).read()
    lines = [l.strip() for l in notes.splitlines() if l.strip()]
    title = re.sub(r"^#+\s*", "", lines[0]) if lines else ""
    title = re.sub(r"^(Change|Seeded change)\s+[A-D]\s*[—:-]+\s*", "", title)[:150].replace("|", "/")
    r = res.get(sid, {})
    how = r.get("line", "")
    kind = "no-failing-input-found (obligation only)" if "no-failing-input-found" in how else ("direct oracle: " + how.split("--")[-1].strip()[:90] if "--" in how else how[:90])
    print("| %s | %s | %s | %s | %s |" % (sid, r.get("property", sid.split('-')[0]), title, ", ".join(r.get("by", [])) or ("MISSED" if r.get("caught") is False else "?"), kind.replace("|", "/")))

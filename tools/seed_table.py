#!/usr/bin/env python3
"""prints the markdown table of seeded changes and which check catches them (from seeded/*/meta.json, notes.md and seeded/RESULTS.json)"""
import glob, json, os, re
res = json.load(open('/verif/seeded/RESULTS.json'))
print("| seeded change | property | what it breaks (from the sub-agent's notes) | caught by | how |")
print("|---|---|---|---|---|")
for d in sorted(glob.glob('/verif/seeded/C*-*')):
    sid = os.path.basename(d)
    notes = open(os.path.join(d, 'notes.md')).read()
    lines = [l.strip() for l in notes.splitlines() if l.strip()]
    title = re.sub(r"^#+\s*", "", lines[0]) if lines else ""
    title = re.sub(r"^(Change|Seeded change)\s+[A-D]\s*[—:-]+\s*", "", title)
    title = re.sub(r"^C\d\d\s*/?\s*(\(?round \d\)?\s*/?\s*)?(change\s+[AB]\s*)?(\(round \d\))?\s*[—:-]+\s*", "", title, flags=re.I)[:150].replace("|", "/")
    r = res.get(sid, {})
    how = r.get("line", "")
    what = how.split("--")[-1].strip()[:90] if "--" in how else how[:90]
    if "no-failing-input-found" in how:
        kind = "correspondence only (no-failing-input-found): " + what
    elif "FAILED obligation: correspondence" in how:
        kind = "correspondence (first of the failed obligations): " + what
    elif "FAILED obligation: property oracle" in how:
        kind = "property rule: " + what
    else:
        kind = what
    print("| %s | %s | %s | %s | %s |" % (sid, r.get("property", sid.split('-')[0]), title, ", ".join(r.get("by", [])) or ("MISSED" if r.get("caught") is False else "?"), kind.replace("|", "/")))

#!/bin/bash
# seed_round.sh <S1> <S2> <prop>...: validate /tmp/mut-<prop>-out/{A,B}.* and keep them as <prop>-<S1> / <prop>-<S2>
S1=$1; S2=$2; shift 2
for p in "$@"; do
  feat=""; [ "$p" = "C16" ] && feat="--features mock_salts"
  ( for X in A B; do echo "$p-$X $(DEMO_FEATURES="$feat" /verif/tools/validate_seed.sh /tmp/mut-$p /tmp/mut-$p-out/$X.patch.diff /tmp/mut-$p-out/$X.demo.rs 2>&1 | grep RESULT)"; done ) > /tmp/val3-$p.log 2>&1
  python3 /verif/tools/store_seed.py $p A /tmp/mut-$p-out /tmp/val3-$p.log $S1
  python3 /verif/tools/store_seed.py $p B /tmp/mut-$p-out /tmp/val3-$p.log $S2
done

#!/usr/bin/env python3
"""replaces the table of seeded changes in DESIGN.md 13.5 by the output of tools/seed_table.py"""
import subprocess, re
t = subprocess.run(["python3", "/verif/tools/seed_table.py"], stdout=subprocess.PIPE, text=True).stdout
p = "/verif/DESIGN.md"
s = open(p).read()
a = s.index("| seeded change | property | what it breaks")
b = s.index("## Appendix A.")
s = s[:a] + t + "\n" + s[b:]
open(p, "w").write(s)
print("table rows:", t.count("\n") - 2)

#!/bin/bash
# multiseed.sh "<ids>" "<seeds>": runs quick checks under several seeds in a scratch copy of /verif (false-alarm hunt)
IDS=${1:-"C01 C02 C05 C06 C09 C12 C13 C14 C16"}; SEEDS=${2:-"2 3 4 5 6"}
rsync -a --delete --exclude .git /verif/ /tmp/ms-verif/
cd /tmp/ms-verif || exit 2
for s in $SEEDS; do for p in $IDS; do
  out=$(VERIF_SEED=$s ./check $p --tier quick 2>&1 | tail -3 | tr '\n' ' ' | cut -c1-300)
  echo "seed=$s $p :: $out"
done; done

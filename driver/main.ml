(* driver/main.ml — the only hand-written OCaml: read one request per line from
   stdin, hand its bytes to the extracted Driver.handle, print the bytes it
   returns.  Conversions between OCaml ints and the extracted N are local. *)

let rec pos_of_int n =
  if n = 1 then Model.XH
  else if n land 1 = 0 then Model.XO (pos_of_int (n lsr 1))
  else Model.XI (pos_of_int (n lsr 1))

let n_of_int n = if n = 0 then Model.N0 else Model.Npos (pos_of_int n)

let rec int_of_pos = function
  | Model.XH -> 1
  | Model.XO p -> 2 * int_of_pos p
  | Model.XI p -> 2 * int_of_pos p + 1

let int_of_n = function Model.N0 -> 0 | Model.Npos p -> int_of_pos p

let byte_tab = Array.init 256 n_of_int

let bytes_of_string (s : string) =
  let rec go i acc = if i < 0 then acc else go (i - 1) (byte_tab.(Char.code s.[i]) :: acc) in
  go (String.length s - 1) []

let () =
  let buf = Buffer.create 65536 in
  (try
     while true do
       let line = input_line stdin in
       let out = Model.handle (bytes_of_string line) in
       Buffer.clear buf;
       List.iter (fun b -> Buffer.add_char buf (Char.chr (int_of_n b land 255))) out;
       Buffer.add_char buf '\n';
       print_string (Buffer.contents buf);
       flush stdout
     done
   with End_of_file -> ())
